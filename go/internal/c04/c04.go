// Package c04 ties the tunnel model (lean/Martian/Model/Tunnel.lean) to martian's blind CONNECT
// tunnel (proxy.go handleConnectRequest / connect) and states property C04 directly over what a raw
// client and a raw target observe on loopback connections.
//
// Ops of one case (one tunnel):
//
//	open <route> <lst> <tgt> <early> <banner> <seedC> <seedT> [<timeoutMs>]
//	    route: direct | via (second martian as downstream proxy) | viafake (raw downstream proxy that
//	           answers "200 Connection established" and <banner> tunnel bytes in ONE write)
//	    lst:   tcp | plain | tls   - what kind of net.Conn the proxy under test accepts
//	    tgt:   tcp | plain         - what kind of net.Conn its dial returns
//	    early: bytes the client sends in the same write as the CONNECT head
//	    banner: bytes the target writes as soon as it has accepted
//	    timeoutMs: Proxy.SetTimeout of the proxy under test (default 30 s, longer than any case)
//	outlive <chunk> <seed>           the client writes <chunk> bytes every 40 ms until the tunnel is older than
//	                                 the proxy's timeout (never idle): are they all forwarded? (open finding
//	                                 c04:active-tunnel-cut-at-timeout; the model is told where the cut fell)
//	openfake <lst> <tgt> <early> <banner> <seedC> <seedT> <status> <style>
//	    route viafake with the raw downstream proxy's answer to the CONNECT spelled out: status 200|201|202|204|299
//	    (any 2xx establishes the tunnel, RFC 9110 9.3.6) or a refusal (403|407|500|502|503: relayed with its body of
//	    <banner> bytes, then the downstream proxy hangs up); style: std | noreason | custom | hdrs | cl0 | h10
//	multi <via|viafake> <lst> <n> <early> <banner> <seed> <gate> <procs>
//	    n tunnels AT ONCE through one proxy under test and one downstream proxy, each with its own target, its own
//	    early data and its own banner (seeds derived from <seed>); gate=1: a response modifier holds tunnel 0's 200
//	    back until the other tunnels are open (their CONNECT exchanges happen between tunnel 0's connect() and the
//	    write of its 200), gate=0: all opened concurrently; procs=1: GOMAXPROCS(1) for the duration of the op.
//	    Then traffic on all tunnels at once, closes, release. Per-tunnel byte identity. A whole case in one op.
//	unreach <route> <lst> [<kind> [near|far]]
//	                                 CONNECT whose dial fails with the given kind of error: refused (default) |
//	                                 timeout (net.Error, Timeout() true) | eof | dns | ctx (context.DeadlineExceeded)
//	                                 | other; near = the dial of the proxy under test fails (to the target, or to the
//	                                 downstream proxy on route via), far = the downstream proxy's dial fails (via only;
//	                                 default on via). May be repeated: the connection must keep serving.
//	send <nC> <nT> <chunkseed>       client writes nC and target writes nT further bytes, concurrently; waits
//	                                 until both have been received (quiescence)
//	push <nC> <nT> <chunkseed>       the same writes, but the op returns as soon as the writes have returned:
//	                                 the bytes are still on their way (socket buffers, the proxy) when the
//	                                 next op - typically a close - is executed
//	pause <ms>                       nobody writes for <ms> (up to 20 s): a tunnel has no deadline of its own short of
//	                                 the proxy's timeout, so whatever follows must behave as if there had been no pause
//	rd <c|t> <eager|slow>            how that end's application reads from now on (slow: 8 KiB, then 1 ms pause)
//	close <c|t> <half|full|abort>    that end finishes sending (CloseWrite), closes, or closes abortively
//	                                 (SO_LINGER 0: the proxy sees ECONNRESET instead of EOF)
//	sendgone <c|t> <n> <chunkseed>   that end keeps writing (>= 2 writes with pauses) although the other end
//	                                 has closed: the proxy's writes towards the closed end fail
//	end                              does the proxy release the tunnel (Proxy.Close returns)?
//
// Observation after every op, at quiescence: status, the total (length:fnv64a) received by the
// target and by the client after the response head, who has seen end-of-stream, released or not.
// An end that has closed fully or abortively is printed as "-" (it no longer reads).
package c04

import (
	"bufio"
	"context"
	"crypto/tls"
	"errors"
	"fmt"
	"io"
	"net"
	"net/http"
	"net/url"
	"os"
	"runtime"
	"strconv"
	"strings"
	"sync"
	"syscall"
	"time"

	martian "github.com/google/martian/v3"
	mlog "github.com/google/martian/v3/log"
	"github.com/google/martian/v3/mitm"

	"verif/harness/internal/core"
)

type P struct{}

func init() { core.Register(P{}) }

func (P) ID() string { return "C04" }
func (P) Rule() string {
	return "one real tunnel per case over loopback (raw client, raw target, proxy under test; optionally a second martian or a raw fake proxy downstream); " +
		"after every op the harness waits for quiescence (bound 2 s, proxy idle timeout 30 s) and compares what each end has received (length:fnv64a), " +
		"EOF flags and release with the Lean model's line; oracle: received == sent in both directions, early data and banner included, EOF reaches the other end, " +
		"unreachable target gives 502 + Warning, Proxy.Close returns once both ends have closed; a timing-dependent failure counts only if it reproduces in 3 of 3 runs"
}

const (
	bound       = 2 * time.Second
	idleTimeout = 30 * time.Second
)

// pat is the byte at offset i of the stream with the given seed (same function in Drv/C04.lean).
func pat(seed, i int) byte { return byte((i*167 + (i/256)*13 + seed) % 256) }

const fnvOff, fnvPrime = uint64(14695981039346656037), uint64(1099511628211)

type digest struct {
	n int
	h uint64
}

func newDigest() digest { return digest{0, fnvOff} }
func (d *digest) add(b []byte) {
	h := d.h
	for _, x := range b {
		h ^= uint64(x)
		h *= fnvPrime
	}
	d.h = h
	d.n += len(b)
}
func (d digest) String() string { return fmt.Sprintf("%d:%016x", d.n, d.h) }

// end is one end of the tunnel as the harness sees it: a connection, a reader goroutine that
// digests everything received, and the digest of everything sent.
type end struct {
	mu        sync.Mutex
	conn      net.Conn
	raw       net.Conn // the TCP connection under conn (conn itself unless the client speaks TLS)
	rd        *bufio.Reader
	recv      digest
	eof       bool
	reset     bool // the read ended with a connection reset, not with end-of-stream
	rerr      error
	sent      digest
	seed      int
	closed    string // "", "half", "full", "abort"
	slow      bool   // the application reads 8 KiB at a time and pauses 1 ms after each read
	wroteGone bool   // has kept writing after the other end closed (op sendgone)
}

func (e *end) gone() bool { return e.closed == "full" || e.closed == "abort" }

func (e *end) start() {
	go func() {
		big := make([]byte, 64<<10)
		for {
			e.mu.Lock()
			slow := e.slow
			e.mu.Unlock()
			buf := big
			if slow {
				buf = big[:8<<10]
			}
			n, err := e.rd.Read(buf)
			e.mu.Lock()
			if n > 0 {
				e.recv.add(buf[:n])
			}
			if err != nil {
				e.eof = true
				e.rerr = err
				e.reset = errors.Is(err, syscall.ECONNRESET) || errors.Is(err, syscall.EPIPE)
				e.mu.Unlock()
				return
			}
			e.mu.Unlock()
			if slow && n > 0 {
				time.Sleep(time.Millisecond)
			}
		}
	}()
}

func (e *end) snap() (digest, bool) {
	e.mu.Lock()
	defer e.mu.Unlock()
	return e.recv, e.eof
}

func (e *end) wasReset() (bool, error) {
	e.mu.Lock()
	defer e.mu.Unlock()
	return e.reset, e.rerr
}

func (e *end) setSlow(v bool) {
	e.mu.Lock()
	e.slow = v
	e.mu.Unlock()
}

// abort closes the connection abortively: SO_LINGER 0, so that the kernel sends RST.
func (e *end) abort() {
	if tc, ok := e.raw.(*net.TCPConn); ok {
		tc.SetLinger(0)
	}
	e.raw.Close()
	if e.conn != e.raw {
		e.conn.Close()
	}
}

// write sends n further pattern bytes in the chunks chosen by r.
func (e *end) write(n int, r *core.Rand) error {
	off := e.sent.n
	for n > 0 {
		var c int
		switch r.Intn(6) {
		case 0:
			c = r.Range(1, 16)
		case 1:
			c = r.Range(4090, 4100)
		case 2:
			c = r.Range(32760, 32776)
		case 3:
			c = r.Range(1, 1500)
		default:
			c = r.Range(1, 1<<18)
		}
		if c > n {
			c = n
		}
		b := make([]byte, c)
		for i := range b {
			b[i] = pat(e.seed, off+i)
		}
		e.conn.SetWriteDeadline(time.Now().Add(10 * time.Second))
		if _, err := e.conn.Write(b); err != nil {
			return err
		}
		e.sent.add(b)
		off += c
		n -= c
		if r.Chance(1, 4) {
			time.Sleep(time.Duration(r.Range(50, 1500)) * time.Microsecond)
		}
	}
	return nil
}

func waitUntil(d time.Duration, cond func() bool) bool {
	deadline := time.Now().Add(d)
	for {
		if cond() {
			return true
		}
		if time.Now().After(deadline) {
			return false
		}
		time.Sleep(300 * time.Microsecond)
	}
}

// waitQuiet waits until cond holds; it gives up when progress() has not changed for `bound` (or after
// hardCap): a slow reader or a loaded machine only delays the verdict as long as bytes keep moving.
const hardCap = 90 * time.Second

func waitQuiet(cond func() bool, progress func() int) bool {
	start := time.Now()
	last, lastAt := progress(), start
	for {
		if cond() {
			return true
		}
		now := time.Now()
		if p := progress(); p != last {
			last, lastAt = p, now
		}
		if now.Sub(lastAt) > bound || now.Sub(start) > hardCap {
			return cond()
		}
		time.Sleep(300 * time.Microsecond)
	}
}

// plainConn hides ReadFrom/WriteTo of the wrapped connection (like *tls.Conn, it still has CloseWrite).
type plainConn struct{ net.Conn }

func (c plainConn) CloseWrite() error {
	if cw, ok := c.Conn.(interface{ CloseWrite() error }); ok {
		return cw.CloseWrite()
	}
	return nil
}

type plainListener struct{ net.Listener }

func (l plainListener) Accept() (net.Conn, error) {
	c, err := l.Listener.Accept()
	if err != nil {
		return nil, err
	}
	return plainConn{c}, nil
}

var (
	tlsOnce sync.Once
	tlsCfg  *tls.Config
)

func serverTLS() *tls.Config {
	tlsOnce.Do(func() {
		ca, priv, err := mitm.NewAuthority("verif", "verif", time.Hour)
		if err != nil {
			panic(err)
		}
		mc, err := mitm.NewConfig(ca, priv)
		if err != nil {
			panic(err)
		}
		tlsCfg = mc.TLSForHost("127.0.0.1")
	})
	return tlsCfg
}

// timeoutErr is a dial error of the timeout class (what a black-holed address gives after the dial timeout).
type timeoutErr struct{}

func (timeoutErr) Error() string   { return "i/o timeout" }
func (timeoutErr) Timeout() bool   { return true }
func (timeoutErr) Temporary() bool { return true }

// dialFault synthesises the error a dial of kind `kind` returns (a port freed a moment ago may be
// re-allocated by another process, a black hole is not available on loopback).
func dialFault(kind, n, a string) error {
	switch kind {
	case "refused":
		return &net.OpError{Op: "dial", Net: n, Err: syscall.ECONNREFUSED}
	case "timeout":
		return &net.OpError{Op: "dial", Net: n, Err: timeoutErr{}}
	case "eof":
		return io.EOF
	case "dns":
		host, _, _ := net.SplitHostPort(a)
		return &net.OpError{Op: "dial", Net: n, Err: &net.DNSError{Err: "no such host", Name: host, IsNotFound: true}}
	case "ctx":
		return context.DeadlineExceeded
	}
	return errors.New("dial failed")
}

var dialKinds = []string{"refused", "timeout", "eof", "dns", "ctx", "other"}

type ex struct {
	fmu        sync.Mutex
	faults     map[string]string // address -> kind of error its dial fails with (op unreach)
	taddr      string            // target address of the failed CONNECTs
	downAddr   string            // address of the downstream proxy (route via)
	ops        []string // executed so far (for confirmation re-runs)
	confirm    bool     // this exec is itself a confirmation run

	proxies   []*martian.Proxy
	listeners []net.Listener
	conns     []net.Conn
	c, t      *end
	status    int
	warning   bool
	opened    bool
	released  string
	route     string
	nUnreach  int
	gateHost   string        // op multi: the CONNECT whose response is held back by the response modifier
	gateCh     chan struct{} // closed to release it
	fakeStatus int    // op openfake: the raw downstream proxy's answer
	fakeStyle  string
	fakeSeed   int
	openedAt  time.Time     // just before the client connected (handleLoop arms its deadline after Accept)
	timeout   time.Duration // Proxy.SetTimeout of the proxy under test
}

// After maxFailures confirmed oracle failures the remaining generated cases of the main pass are
// not executed (each failing case costs the 2 s bound several times over); the cases run by the
// shrinker afterwards and replays are always executed.
const maxFailures = 6

var (
	mainCases     = -1 // corpus + generated cases; -1 in replay mode (Gen not called)
	execsStarted  int
	totalFailures int
)

func (P) NewExec() core.Exec {
	mlog.SetLevel(mlog.Silent)
	execsStarted++
	if mainCases >= 0 && execsStarted <= mainCases && totalFailures >= maxFailures {
		core.Count("skipped-after-failures")
		return skipEx{}
	}
	return &ex{}
}

type skipEx struct{}

func (skipEx) Do(string) core.Result { return core.Result{Impl: "skipped", SkipModel: true} }
func (skipEx) Close()                {}

func (e *ex) Close() {
	for _, c := range e.conns {
		c.Close()
	}
	for _, l := range e.listeners {
		l.Close()
	}
	for _, p := range e.proxies {
		p := p
		if e.released == "" { // Close was not tried yet; never wait for it
			go func() {
				defer func() { recover() }()
				p.Close()
			}()
		}
	}
}

func fail(sig, format string, a ...interface{}) core.Result {
	return core.Result{Fail: fmt.Sprintf(format, a...), Sig: sig}
}

func (e *ex) listen() (net.Listener, bool) {
	l, err := net.Listen("tcp", "127.0.0.1:0")
	if err != nil {
		return nil, false
	}
	e.listeners = append(e.listeners, l)
	return l, true
}

func (e *ex) newProxy(lst, tgt string, down string, timeout time.Duration) (string, bool) {
	l, ok := e.listen()
	if !ok {
		return "", false
	}
	p := martian.NewProxy()
	p.SetTimeout(timeout)
	if down != "" {
		p.SetDownstreamProxy(&url.URL{Host: down})
		if e.gateCh != nil {
			host, ch := e.gateHost, e.gateCh
			p.SetResponseModifier(martian.ResponseModifierFunc(func(res *http.Response) error {
				if res.Request != nil && res.Request.Method == "CONNECT" && res.Request.URL != nil && res.Request.URL.Host == host {
					select {
					case <-ch:
					case <-time.After(5 * time.Second):
					}
				}
				return nil
			}))
		}
	}
	{
		p.SetDial(func(n, a string) (net.Conn, error) {
			e.fmu.Lock()
			kind := e.faults[a]
			e.fmu.Unlock()
			if kind != "" {
				return nil, dialFault(kind, n, a)
			}
			c, err := net.DialTimeout(n, a, 5*time.Second)
			if err != nil {
				return nil, err
			}
			if tgt == "plain" {
				return plainConn{c}, nil
			}
			return c, nil
		})
	}
	var sl net.Listener = l
	switch lst {
	case "plain":
		sl = plainListener{l}
	case "tls":
		sl = tls.NewListener(l, serverTLS())
	}
	e.proxies = append(e.proxies, p)
	go p.Serve(sl)
	return l.Addr().String(), true
}

// fakeHead is the downstream proxy's answer to the CONNECT, in one of the spellings seen in the wild.
func fakeHead(status int, style, extra string) []byte {
	reason := http.StatusText(status)
	if reason == "" {
		reason = "Whatever"
	}
	proto, hdr := "HTTP/1.1", ""
	switch style {
	case "noreason":
		reason = ""
	case "custom":
		reason = "Connection established"
	case "hdrs":
		hdr = "Via: 1.1 fake\r\nProxy-Agent: fake/1.0\r\nProxy-Connection: keep-alive\r\nX-Pad: " + strings.Repeat("p", 300) + "\r\n"
	case "cl0":
		if extra == "" {
			hdr = "Content-Length: 0\r\n"
		}
	case "h10":
		proto, reason = "HTTP/1.0", "Connection established"
	}
	line := proto + " " + strconv.Itoa(status)
	if reason != "" {
		line += " " + reason
	}
	return []byte(line + "\r\n" + hdr + extra + "\r\n")
}

var (
	fakeStatuses = []int{200, 201, 202, 204, 299, 403, 407, 500, 502, 503}
	fakeStyles   = []string{"std", "noreason", "custom", "hdrs", "cl0", "h10"}
)

// fakeProxy is a raw downstream proxy: it answers CONNECT with a 200 that has no Content-Length
// and, in the same write, the first `banner` bytes the target has sent.
func (e *ex) fakeProxy(banner int) (string, bool) {
	status, style, seedT := e.fakeStatus, e.fakeStyle, e.fakeSeed
	if status == 0 {
		status, style = 200, "custom"
	}
	serve := func(c net.Conn) { fakeServe(c, banner, status, style, seedT) }
	l, ok := e.listen()
	if !ok {
		return "", false
	}
	go func() {
		for {
			c, err := l.Accept()
			if err != nil {
				return
			}
			go serve(c)
		}
	}()
	return l.Addr().String(), true
}

func fakeServe(c net.Conn, banner, status int, style string, seedT int) {
	func() {
		defer c.Close()
		br := bufio.NewReader(c)
		c.SetReadDeadline(time.Now().Add(10 * time.Second))
		var host string
		for {
			line, err := br.ReadString('\n')
			if err != nil {
				return
			}
			if f := strings.Fields(line); len(f) >= 2 && f[0] == "CONNECT" {
				host = f[1]
			}
			if line == "\r\n" {
				break
			}
		}
		c.SetReadDeadline(time.Time{})
		if status/100 != 2 {
			// a refusal: head, a body of `banner` bytes delimited by Content-Length, hang up
			body := make([]byte, banner)
			for i := range body {
				body[i] = pat(seedT, i)
			}
			c.Write(append(fakeHead(status, style, fmt.Sprintf("Content-Length: %d\r\n", banner)), body...))
			if tc, ok := c.(*net.TCPConn); ok {
				tc.CloseWrite()
			}
			c.SetReadDeadline(time.Now().Add(3 * time.Second))
			io.Copy(io.Discard, br) // read what the proxy still sends, so that our close is a FIN
			return
		}
		t, err := net.DialTimeout("tcp", host, 5*time.Second)
		if err != nil {
			c.Write([]byte("HTTP/1.1 502 Bad Gateway\r\nWarning: 199 \"fake\" \"unreachable\"\r\nContent-Length: 0\r\n\r\n"))
			return
		}
		defer t.Close()
		ahead := make([]byte, banner)
		t.SetReadDeadline(time.Now().Add(5 * time.Second))
		for got := 0; got < banner; {
			n, err := t.Read(ahead[got:])
			got += n
			if err != nil {
				return
			}
		}
		t.SetReadDeadline(time.Time{})
		c.Write(append(fakeHead(status, style, ""), ahead...))
		done := make(chan bool, 2)
		pump := func(dst, src net.Conn, r *bufio.Reader) {
			buf := make([]byte, 32<<10)
			for {
				var n int
				var err error
				if r != nil {
					n, err = r.Read(buf)
				} else {
					n, err = src.Read(buf)
				}
				if n > 0 {
					if _, werr := dst.Write(buf[:n]); werr != nil {
						break
					}
				}
				if err != nil {
					break
				}
			}
			if cw, ok := dst.(*net.TCPConn); ok {
				cw.CloseWrite()
			}
			done <- true
		}
		go pump(t, c, br)
		go pump(c, t, nil)
		for i := 0; i < 2; i++ {
			select {
			case <-done:
			case <-time.After(25 * time.Second):
				return
			}
		}
	}()
}

// multi: several tunnels at once (see the package comment). Seeds/sizes per tunnel are the same
// functions of the op's arguments in Drv/C04.lean.
func multiSeeds(seed, i int) (int, int)  { return (seed + 31*i) % 256, (seed + 17 + 57*i) % 256 }
func multiSizes(i int) (int, int)        { return 1000 + 777*i, 3000 + 1001*i }

type tun struct {
	c, t     *end
	taddr    string
	accepted chan net.Conn
	early    []byte
}

func (e *ex) multi(f []string) core.Result {
	if e.opened || e.status != 0 || e.c != nil || len(f) != 9 {
		return core.Result{Impl: "bad-op"}
	}
	route, lst, n, early, banner, seed, gate, procs := f[1], f[2], atoi(f[3]), atoi(f[4]), atoi(f[5]), atoi(f[6]), f[7] == "1", f[8] == "1"
	if (route != "via" && route != "viafake") || (lst != "tcp" && lst != "plain" && lst != "tls") || n < 2 || n > 8 || early > 6000 || banner > 6000 {
		return core.Result{Impl: "bad-op"}
	}
	core.Count(fmt.Sprintf("multi:%s:gate=%v:procs1=%v", route, gate, procs))
	if procs {
		old := runtime.GOMAXPROCS(1)
		defer runtime.GOMAXPROCS(old)
	}
	e.status = -1 // the case is this op
	e.timeout = idleTimeout
	tuns := make([]*tun, n)
	for i := range tuns {
		tl, ok := e.listen()
		if !ok {
			return core.Result{Impl: "setup-failed", Fail: "listen failed", Sig: "c04:setup"}
		}
		sc, st := multiSeeds(seed, i)
		tu := &tun{taddr: tl.Addr().String(), accepted: make(chan net.Conn, 1),
			c: &end{seed: sc, recv: newDigest(), sent: newDigest()}, t: &end{seed: st, recv: newDigest(), sent: newDigest()}}
		go func() {
			if c, err := tl.Accept(); err == nil {
				tu.accepted <- c
			}
		}()
		tu.early = make([]byte, early)
		for j := range tu.early {
			tu.early[j] = pat(sc, j)
		}
		tuns[i] = tu
	}
	if gate {
		e.gateHost, e.gateCh = tuns[0].taddr, make(chan struct{})
	}
	var down string
	var ok bool
	if route == "via" {
		down, ok = e.newProxy("tcp", "tcp", "", idleTimeout)
	} else {
		e.fakeSeed = 0
		down, ok = e.fakeProxy(banner)
	}
	if !ok {
		return core.Result{Impl: "setup-failed", Fail: "listen failed", Sig: "c04:setup"}
	}
	paddr, ok := e.newProxy(lst, "tcp", down, idleTimeout)
	if !ok {
		return core.Result{Impl: "setup-failed", Fail: "listen failed", Sig: "c04:setup"}
	}
	var mu sync.Mutex
	// request: connect the client, send CONNECT + early data, let the target accept and speak first
	request := func(i int) string {
		tu := tuns[i]
		cc, craw, err := dialClient(paddr, lst)
		if err != nil {
			return "setup: client dial: " + err.Error()
		}
		mu.Lock()
		e.conns = append(e.conns, cc)
		mu.Unlock()
		tu.c.conn, tu.c.raw, tu.c.rd = cc, craw, bufio.NewReaderSize(cc, 64<<10)
		msg := []byte("CONNECT " + tu.taddr + " HTTP/1.1\r\nHost: " + tu.taddr + "\r\n\r\n")
		cc.SetWriteDeadline(time.Now().Add(5 * time.Second))
		if _, err := cc.Write(append(msg, tu.early...)); err != nil {
			return "setup: client write: " + err.Error()
		}
		tu.c.sent.add(tu.early)
		select {
		case tc := <-tu.accepted:
			mu.Lock()
			e.conns = append(e.conns, tc)
			mu.Unlock()
			tu.t.conn, tu.t.raw, tu.t.rd = tc, tc, bufio.NewReaderSize(tc, 64<<10)
			bb := make([]byte, banner)
			for j := range bb {
				bb[j] = pat(tu.t.seed, j)
			}
			if banner > 0 {
				tc.SetWriteDeadline(time.Now().Add(5 * time.Second))
				tc.Write(bb)
			}
			tu.t.sent.add(bb)
			tu.t.start()
		case <-time.After(2 * bound):
			return fmt.Sprintf("tunnel %d: the target saw no connection within %v", i, 2*bound)
		}
		return ""
	}
	// answer: the client reads its 200
	answer := func(i int) string {
		tu := tuns[i]
		st, _, err := readHead(tu.c.conn, tu.c.rd)
		if err != nil || st/100 != 2 {
			return fmt.Sprintf("tunnel %d: no 2xx head within %v (status %d, err %v)", i, bound, st, err)
		}
		tu.c.start()
		return ""
	}
	var problems []string
	note := func(p string) {
		if p != "" {
			mu.Lock()
			problems = append(problems, p)
			mu.Unlock()
		}
	}
	if gate {
		// tunnel 0 has connected downstream and waits in the response modifier while the others open completely
		note(request(0))
		for i := 1; i < n && len(problems) == 0; i++ {
			note(request(i))
			if len(problems) == 0 {
				note(answer(i))
			}
		}
		close(e.gateCh)
		if len(problems) == 0 {
			note(answer(0))
		}
	} else {
		var wg sync.WaitGroup
		for i := 0; i < n; i++ {
			wg.Add(1)
			go func(i int) {
				defer wg.Done()
				if p := request(i); p != "" {
					note(p)
					return
				}
				note(answer(i))
			}(i)
		}
		wg.Wait()
	}
	for _, p := range problems {
		if strings.HasPrefix(p, "setup:") {
			return core.Result{Impl: "setup-failed", Fail: p, Sig: "c04:setup"}
		}
	}
	if len(problems) > 0 {
		return core.Result{Impl: "multi failed", Fail: "several tunnels at once: " + problems[0], Sig: "c04:multi:no-tunnel"}
	}
	// traffic on all tunnels at once
	r := core.NewRand(uint64(seed))
	errs := make(chan error, 2*n)
	for i, tu := range tuns {
		nC, nT := multiSizes(i)
		rc, rt := r.Fork(), r.Fork()
		go func(tu *tun) { errs <- tu.c.write(nC, rc) }(tu)
		go func(tu *tun) { errs <- tu.t.write(nT, rt) }(tu)
	}
	for i := 0; i < 2*n; i++ {
		select {
		case err := <-errs:
			if err != nil {
				return core.Result{Impl: "multi failed", Fail: "several tunnels at once: a write into an open tunnel failed: " + err.Error(), Sig: "c04:multi:write-failed"}
			}
		case <-time.After(20 * time.Second):
			return core.Result{Impl: "multi failed", Fail: "several tunnels at once: a write into an open tunnel blocked for 20 s", Sig: "c04:multi:write-blocked"}
		}
	}
	moved := func() int {
		m := 0
		for _, tu := range tuns {
			a, _ := tu.t.snap()
			b, _ := tu.c.snap()
			m += a.n + b.n
		}
		return m
	}
	waitQuiet(func() bool {
		for _, tu := range tuns {
			a, _ := tu.t.snap()
			b, _ := tu.c.snap()
			if a.n < tu.c.sent.n || b.n < tu.t.sent.n {
				return false
			}
		}
		return true
	}, moved)
	var parts []string
	var res core.Result
	for i, tu := range tuns {
		td, _ := tu.t.snap()
		cd, _ := tu.c.snap()
		parts = append(parts, fmt.Sprintf("t=%s c=%s", td, cd))
		if res.Fail != "" {
			continue
		}
		if cd != tu.t.sent {
			res.Sig = "c04:multi:t2c-not-delivered"
			if cd.n >= tu.t.sent.n || cd.n > 0 && cd.h != prefixHash(tu.t.seed, cd.n) {
				res.Sig = "c04:multi:t2c-corrupt"
			}
			res.Fail = fmt.Sprintf("%d tunnels at once: the target of tunnel %d has sent %s (its own banner of %d bytes first) but its client has received %s: not this tunnel's bytes", n, i, tu.t.sent, banner, cd)
		} else if td != tu.c.sent {
			res.Sig = "c04:multi:c2t-not-delivered"
			if td.n >= tu.c.sent.n || td.n > 0 && td.h != prefixHash(tu.c.seed, td.n) {
				res.Sig = "c04:multi:c2t-corrupt"
			}
			res.Fail = fmt.Sprintf("%d tunnels at once: the client of tunnel %d has sent %s (early data of %d bytes first) but its target has received %s", n, i, tu.c.sent, early, td)
		}
	}
	res.Impl = "multi " + strings.Join(parts, " | ")
	if res.Fail != "" {
		return res
	}
	// every client finishes, every target sees it and finishes, every client sees that; release
	for _, tu := range tuns {
		if cw, ok := tu.c.conn.(interface{ CloseWrite() error }); ok {
			cw.CloseWrite()
		}
	}
	for i, tu := range tuns {
		if !waitQuiet(func() bool { _, eof := tu.t.snap(); return eof }, moved) {
			res.Fail, res.Sig = fmt.Sprintf("%d tunnels at once: client %d finished sending but its target has not seen end-of-stream", n, i), "c04:multi:eof-not-propagated-to-target"
			return res
		}
		tu.t.conn.Close()
	}
	for i, tu := range tuns {
		if !waitQuiet(func() bool { _, eof := tu.c.snap(); return eof }, moved) {
			res.Fail, res.Sig = fmt.Sprintf("%d tunnels at once: target %d closed but its client has not seen end-of-stream", n, i), "c04:multi:eof-not-propagated-to-client"
			return res
		}
		tu.c.conn.Close()
	}
	done := make(chan bool, len(e.proxies))
	for _, p := range e.proxies {
		p := p
		go func() {
			defer func() { recover() }()
			p.Close()
			done <- true
		}()
	}
	e.released = "released"
	deadline := time.After(bound)
	for range e.proxies {
		select {
		case <-done:
		case <-deadline:
			e.released = "blocked"
		}
	}
	if e.released != "released" {
		res.Fail, res.Sig = fmt.Sprintf("%d tunnels at once: all ends have closed, but Proxy.Close() did not return within %v", n, bound), "c04:multi:not-released"
	}
	res.Impl += " " + e.released
	return res
}

// unreach: a CONNECT whose dial fails. The first one sets the fixture up; further ones go over the
// same client connection (a failed CONNECT does not end it).
func (e *ex) unreach(f []string) core.Result {
	if e.opened || len(f) < 3 || len(f) > 5 {
		return core.Result{Impl: "bad-op"}
	}
	route, lst, kind, where := f[1], f[2], "refused", ""
	if len(f) >= 4 {
		kind = f[3]
	}
	if len(f) == 5 {
		where = f[4]
	}
	okKind := false
	for _, k := range dialKinds {
		okKind = okKind || k == kind
	}
	if !okKind || (route != "direct" && route != "via") || (lst != "tcp" && lst != "plain" && lst != "tls") ||
		(where != "" && where != "near" && !(where == "far" && route == "via")) {
		return core.Result{Impl: "bad-op"}
	}
	if where == "" {
		where = "near"
		if route == "via" {
			where = "far"
		}
	}
	if e.c == nil {
		// fixture: a target address nobody will ever be dialled at, the proxies, the client connection
		core.Count("route:" + route)
		core.Count("lst:" + lst)
		tl, ok := e.listen()
		if !ok {
			return core.Result{Impl: "setup-failed", Fail: "listen failed", Sig: "c04:setup"}
		}
		e.taddr = tl.Addr().String()
		tl.Close()
		e.timeout = idleTimeout
		if route == "via" {
			if e.downAddr, ok = e.newProxy("tcp", "tcp", "", idleTimeout); !ok {
				return core.Result{Impl: "setup-failed", Fail: "listen failed", Sig: "c04:setup"}
			}
		}
		paddr, ok := e.newProxy(lst, "tcp", e.downAddr, e.timeout)
		if !ok {
			return core.Result{Impl: "setup-failed", Fail: "listen failed", Sig: "c04:setup"}
		}
		cc, craw, err := dialClient(paddr, lst)
		if err != nil {
			return core.Result{Impl: "setup-failed", Fail: "client dial: " + err.Error(), Sig: "c04:setup"}
		}
		e.conns = append(e.conns, cc)
		e.c = &end{recv: newDigest(), sent: newDigest()}
		e.t = &end{recv: newDigest(), sent: newDigest()}
		e.c.conn, e.c.raw, e.c.rd = cc, craw, bufio.NewReaderSize(cc, 64<<10)
		e.route = route
	} else if e.route != route || e.status != 502 {
		return core.Result{Impl: "bad-op"}
	}
	nth := e.nUnreach
	e.nUnreach++
	core.Count("unreach:" + route + ":" + where + ":" + kind)
	if nth > 0 {
		core.Count("unreach:on-a-kept-connection")
	}
	// which dial fails, and how
	e.fmu.Lock()
	e.faults = map[string]string{}
	if where == "near" && route == "via" {
		e.faults[e.downAddr] = kind
	} else {
		e.faults[e.taddr] = kind
	}
	e.fmu.Unlock()
	msg := []byte("CONNECT " + e.taddr + " HTTP/1.1\r\nHost: " + e.taddr + "\r\n\r\n")
	e.c.conn.SetWriteDeadline(time.Now().Add(5 * time.Second))
	what := fmt.Sprintf("CONNECT whose dial fails (%s, %s dial)", kind, where)
	if nth > 0 {
		what = fmt.Sprintf("CONNECT no. %d on the connection, whose dial fails (%s, %s dial)", nth+1, kind, where)
	}
	if _, err := e.c.conn.Write(msg); err != nil {
		e.status = 0
		return core.Result{Impl: "status none", Fail: what + ": the client could not send it: " + err.Error(), Sig: "c04:no-response:" + kind}
	}
	st, warn, err := readHead(e.c.conn, e.c.rd)
	e.status, e.warning = st, warn
	core.Count("outcome:unreachable")
	w := "nowarning"
	if warn {
		w = "warning"
	}
	impl := fmt.Sprintf("status %d %s", st, w)
	if err != nil {
		e.status = 0
		return core.Result{Impl: "status none", Fail: fmt.Sprintf("%s: no response head within %v (%v)", what, bound, err), Sig: "c04:no-response:" + kind}
	}
	if st != 502 {
		return core.Result{Impl: impl, Fail: fmt.Sprintf("%s: answered %d, want exactly 502", what, st), Sig: "c04:no-502:" + kind}
	}
	if !warn {
		return core.Result{Impl: impl, Fail: what + ": the 502 has no Warning header", Sig: "c04:no-warning:" + kind}
	}
	return core.Result{Impl: impl}
}

func (e *ex) obs() string {
	td, teof := digest{}, false
	cd, ceof := digest{}, false
	if e.t != nil {
		td, teof = e.t.snap()
	} else {
		td = newDigest()
	}
	if e.c != nil {
		cd, ceof = e.c.snap()
	} else {
		cd = newDigest()
	}
	b := func(x bool) string {
		if x {
			return "1"
		}
		return "0"
	}
	ts, cs := td.String(), cd.String()
	if e.t != nil && e.t.gone() {
		ts = "-"
	}
	if e.c != nil && e.c.gone() {
		cs = "-"
	}
	return fmt.Sprintf("t=%s c=%s teof=%s ceof=%s", ts, cs, b(teof), b(ceof))
}

// dialClient connects to the proxy under test the way its listener expects.
func dialClient(addr, lst string) (conn, raw net.Conn, err error) {
	c, err := net.DialTimeout("tcp", addr, 5*time.Second)
	if err != nil {
		return nil, nil, err
	}
	if lst == "tls" {
		tc := tls.Client(c, &tls.Config{InsecureSkipVerify: true})
		c.SetDeadline(time.Now().Add(5 * time.Second))
		if err := tc.Handshake(); err != nil {
			c.Close()
			return nil, nil, err
		}
		c.SetDeadline(time.Time{})
		return tc, c, nil
	}
	return c, c, nil
}

// readHead reads the response head; the reader keeps whatever followed it.
func readHead(c net.Conn, br *bufio.Reader) (status int, warning bool, err error) {
	c.SetReadDeadline(time.Now().Add(bound))
	defer c.SetReadDeadline(time.Time{})
	first := true
	for {
		line, err := br.ReadString('\n')
		if err != nil {
			return status, warning, err
		}
		if first {
			f := strings.Fields(line)
			if len(f) >= 2 {
				status, _ = strconv.Atoi(f[1])
			}
			first = false
		}
		if strings.HasPrefix(strings.ToLower(line), "warning:") {
			warning = true
		}
		if line == "\r\n" || line == "\n" {
			return status, warning, nil
		}
	}
}

// checkDir: `to` must have received exactly what `from` has sent (skipped once `to` no longer reads).
func (e *ex) checkDir(what string, from, to *end, dir, fromName, toName string) core.Result {
	if to.gone() || from.wroteGone {
		// the receiver no longer reads, or this direction has already been found dead (sendgone, outlive)
		return core.Result{}
	}
	got, _ := to.snap()
	if got == from.sent {
		return core.Result{}
	}
	sig := "c04:" + dir + "-not-delivered"
	if got.n >= from.sent.n || got.n > 0 && got.h != prefixHash(from.seed, got.n) {
		sig = "c04:" + dir + "-corrupt"
	}
	how := ""
	if rst, err := to.wasReset(); rst {
		how = fmt.Sprintf(" and its read ended with a connection reset (%v)", err)
	}
	return fail(sig, "%s: %s has sent %s but the %s has received %s%s, %v after the tunnel went quiet", what, fromName, from.sent, toName, got, how, bound)
}

func (e *ex) checkDelivery(what string) core.Result {
	if r := e.checkDir(what, e.c, e.t, "c2t", "client", "target"); r.Fail != "" {
		return r
	}
	return e.checkDir(what, e.t, e.c, "t2c", "target", "client")
}

func prefixHash(seed, n int) uint64 {
	d := newDigest()
	b := make([]byte, n)
	for i := range b {
		b[i] = pat(seed, i)
	}
	d.add(b)
	return d.h
}

// waitDelivered waits until every end that still reads has received as many bytes as were sent to
// it (or its stream has ended), as long as bytes keep moving.
func (e *ex) waitDelivered() {
	waitQuiet(func() bool {
		td, teof := e.t.snap()
		cd, ceof := e.c.snap()
		return (e.t.gone() || teof || td.n >= e.c.sent.n) && (e.c.gone() || ceof || cd.n >= e.t.sent.n)
	}, e.moved)
}

// waitReceived waits until `to` has received everything `from` has sent.
func (e *ex) waitReceived(from, to *end) {
	waitQuiet(func() bool {
		d, eof := to.snap()
		return eof || d.n >= from.sent.n
	}, e.moved)
}

func (e *ex) moved() int {
	td, _ := e.t.snap()
	cd, _ := e.c.snap()
	return td.n + cd.n
}

func atoi(s string) int { n, _ := strconv.Atoi(s); return n }

func (e *ex) do(op string) core.Result {
	f := strings.Fields(op)
	if len(f) == 0 {
		return core.Result{Impl: "bad-op"}
	}
	switch f[0] {
	case "unreach":
		return e.unreach(f)

	case "multi":
		return e.multi(f)

	case "open", "openfake":
		if e.opened || e.status != 0 {
			return core.Result{Impl: "bad-op"}
		}
		var route, lst, tgt string
		var early, banner, seedC, seedT int
		want := 200 // the acknowledgement the client must get
		if f[0] == "openfake" {
			if len(f) != 9 {
				return core.Result{Impl: "bad-op"}
			}
			okS, okY := false, false
			for _, x := range fakeStatuses {
				okS = okS || x == atoi(f[7])
			}
			for _, x := range fakeStyles {
				okY = okY || x == f[8]
			}
			if !okS || !okY || (atoi(f[7])/100 != 2 && atoi(f[3]) != 0) {
				return core.Result{Impl: "bad-op"}
			}
			e.fakeStatus, e.fakeStyle, e.fakeSeed = atoi(f[7]), f[8], atoi(f[6])
			want = e.fakeStatus
			core.Count(fmt.Sprintf("downstream-answer:%d:%s", e.fakeStatus, e.fakeStyle))
			f = []string{"open", "viafake", f[1], f[2], f[3], f[4], f[5], f[6]}
		}
		if len(f) != 8 && len(f) != 9 {
			return core.Result{Impl: "bad-op"}
		}
		route, lst, tgt = f[1], f[2], f[3]
		early, banner, seedC, seedT = atoi(f[4]), atoi(f[5]), atoi(f[6]), atoi(f[7])
		e.timeout = idleTimeout
		if len(f) == 9 && atoi(f[8]) >= 500 && atoi(f[8]) <= 30000 {
			e.timeout = time.Duration(atoi(f[8])) * time.Millisecond
		}
		core.Count("route:" + route)
		core.Count("lst:" + lst)
		core.Count("kind:" + route + "/" + lst + "/" + tgt)
		// target
		tl, ok := e.listen()
		if !ok {
			return core.Result{Impl: "setup-failed", Fail: "listen failed", Sig: "c04:setup"}
		}
		taddr := tl.Addr().String()
		accepted := make(chan net.Conn, 1)
		go func() {
			c, err := tl.Accept()
			if err != nil {
				return
			}
			accepted <- c
		}()
		e.t = &end{seed: seedT, recv: newDigest(), sent: newDigest()}
		e.c = &end{seed: seedC, recv: newDigest(), sent: newDigest()}
		down := ""
		switch route {
		case "via":
			down, ok = e.newProxy("tcp", "tcp", "", idleTimeout)
		case "viafake":
			down, ok = e.fakeProxy(banner)
		case "direct":
		default:
			return core.Result{Impl: "bad-op"}
		}
		if !ok {
			return core.Result{Impl: "setup-failed", Fail: "listen failed", Sig: "c04:setup"}
		}
		paddr, ok := e.newProxy(lst, tgt, down, e.timeout)
		if !ok {
			return core.Result{Impl: "setup-failed", Fail: "listen failed", Sig: "c04:setup"}
		}
		e.openedAt = time.Now()
		cc, craw, err := dialClient(paddr, lst)
		if err != nil {
			return core.Result{Impl: "setup-failed", Fail: "client dial: " + err.Error(), Sig: "c04:setup"}
		}
		e.conns = append(e.conns, cc)
		e.c.conn, e.c.raw, e.c.rd = cc, craw, bufio.NewReaderSize(cc, 64<<10)
		// CONNECT head and early data in ONE write
		msg := []byte("CONNECT " + taddr + " HTTP/1.1\r\nHost: " + taddr + "\r\n\r\n")
		eb := make([]byte, early)
		for i := range eb {
			eb[i] = pat(seedC, i)
		}
		cc.SetWriteDeadline(time.Now().Add(5 * time.Second))
		if _, err := cc.Write(append(msg, eb...)); err != nil {
			return core.Result{Impl: "setup-failed", Fail: "client write: " + err.Error(), Sig: "c04:setup"}
		}
		e.c.sent.add(eb)
		if want/100 != 2 {
			// a refusal by the downstream proxy: relayed with its body; the downstream proxy hangs up, so the
			// client sees end-of-stream. Not a clause of the property: compared with the model only.
			st, _, _ := readHead(cc, e.c.rd)
			e.status = st
			e.c.start()
			waitQuiet(func() bool { _, eof := e.c.snap(); return eof }, func() int { d, _ := e.c.snap(); return d.n })
			cd, ceof := e.c.snap()
			b := "0"
			if ceof {
				b = "1"
			}
			core.Count("outcome:downstream-refusal")
			return core.Result{Impl: fmt.Sprintf("status %d c=%s ceof=%s", st, cd, b)}
		}
		{
			// the target speaks first: banner
			select {
			case tc := <-accepted:
				e.conns = append(e.conns, tc)
				e.t.conn, e.t.raw, e.t.rd = tc, tc, bufio.NewReaderSize(tc, 64<<10)
				bb := make([]byte, banner)
				for i := range bb {
					bb[i] = pat(seedT, i)
				}
				if banner > 0 {
					tc.SetWriteDeadline(time.Now().Add(5 * time.Second))
					tc.Write(bb)
				}
				e.t.sent.add(bb)
				e.t.start()
			case <-time.After(bound):
				e.status, _, _ = readHead(cc, e.c.rd)
				return core.Result{Impl: fmt.Sprintf("open %d no-accept", e.status),
					Fail: fmt.Sprintf("the target saw no connection within %v of the CONNECT (status read by the client: %d)", bound, e.status), Sig: "c04:no-tunnel"}
			}
		}
		st, warn, err := readHead(cc, e.c.rd)
		e.status, e.warning = st, warn
		if err != nil || st/100 != 2 {
			sig := "c04:no-200"
			if want != 200 {
				sig = fmt.Sprintf("c04:no-2xx-ack:%d", want)
			}
			return core.Result{Impl: fmt.Sprintf("status %d", st),
				Fail: fmt.Sprintf("CONNECT to a listening target (the downstream side acknowledged with %d): no 2xx head at the client within %v (status %d, err %v)", want, bound, st, err), Sig: sig}
		}
		e.opened = true
		e.c.start()
		e.waitDelivered()
		impl := fmt.Sprintf("status %d ", st) + e.obs()
		if td, _ := e.t.snap(); td != e.c.sent {
			return core.Result{Impl: impl, Sig: "c04:early-data-not-delivered",
				Fail: fmt.Sprintf("%d bytes sent in the same write as the CONNECT head: the target has received %s (want %s) %v later", early, td, e.c.sent, bound)}
		}
		if r := e.checkDelivery("banner"); r.Fail != "" {
			r.Impl = impl
			return r
		}
		core.Count("outcome:tunnel")
		return core.Result{Impl: impl}

	case "send", "push":
		if !e.opened || len(f) != 4 {
			return core.Result{Impl: "bad-op"}
		}
		nC, nT := atoi(f[1]), atoi(f[2])
		// nothing is sent by an end that has finished sending, nor (here) towards an end that is gone
		if e.c.closed != "" || e.t.gone() {
			nC = 0
		}
		if e.t.closed != "" || e.c.gone() {
			nT = 0
		}
		r := core.NewRand(uint64(atoi(f[3])))
		rc, rt := r.Fork(), r.Fork()
		errs := make(chan error, 2)
		go func() { errs <- e.c.write(nC, rc) }()
		go func() { errs <- e.t.write(nT, rt) }()
		// a write may take as long as a slow reader needs; it is blocked when no byte has moved for 10 s
		last, lastAt := e.moved(), time.Now()
		for i := 0; i < 2; {
			select {
			case err := <-errs:
				i++
				if err != nil {
					return core.Result{Impl: "write-failed " + e.obs(), Fail: "a write into the open tunnel failed: " + err.Error(), Sig: "c04:write-failed"}
				}
			case <-time.After(50 * time.Millisecond):
				if m := e.moved(); m != last {
					last, lastAt = m, time.Now()
				} else if time.Since(lastAt) > 10*time.Second {
					return core.Result{Impl: "write-blocked " + e.obs(), Fail: "a write into the open tunnel has been blocked for 10 s without a byte arriving anywhere (the proxy stopped reading)", Sig: "c04:write-blocked"}
				}
			}
		}
		if nC > 0 && nT > 0 {
			core.Count(f[0] + ":both")
		} else if nC+nT > 0 {
			core.Count(f[0] + ":one")
		}
		if nC+nT >= 1<<20 {
			core.Count(f[0] + ":>=1MiB")
		}
		if e.c.slow && nT >= 1<<20 || e.t.slow && nC >= 1<<20 {
			core.Count(f[0] + ":>=1MiB-to-slow-reader")
		}
		if f[0] == "push" {
			// still on its way: nothing about delivery is observed (or compared) before the next op
			return core.Result{Impl: "pushed"}
		}
		e.waitDelivered()
		res := e.checkDelivery("send")
		res.Impl = e.obs()
		return res

	case "outlive":
		if !e.opened || len(f) != 3 || atoi(f[1]) < 1 || atoi(f[1]) > 4096 {
			return core.Result{Impl: "bad-op"}
		}
		if e.c.closed != "" || e.t.closed != "" || e.timeout >= idleTimeout {
			return core.Result{Impl: "bad-op"}
		}
		core.Count("outlive")
		chunk := atoi(f[1])
		var werr error
		before := e.c.sent.n
		for time.Since(e.openedAt) < e.timeout+400*time.Millisecond {
			b := make([]byte, chunk)
			for j := range b {
				b[j] = pat(e.c.seed, e.c.sent.n+j)
			}
			e.c.conn.SetWriteDeadline(time.Now().Add(5 * time.Second))
			if _, werr = e.c.conn.Write(b); werr != nil {
				break
			}
			e.c.sent.add(b)
			time.Sleep(40 * time.Millisecond)
		}
		e.waitDelivered()
		td, teof := e.t.snap()
		wrote := e.c.sent.n - before
		// the model is told how many of these bytes were forwarded before the deadline fell
		res := core.Result{ModelOp: fmt.Sprintf("outlive %d %d", wrote, td.n-before)}
		if td.n < e.c.sent.n || teof || werr != nil {
			e.c.wroteGone = true // the client→target copy has ended without the client closing
		}
		res.Impl = e.obs()
		if td != e.c.sent || teof || werr != nil {
			res.Sig = "c04:active-tunnel-cut-at-timeout"
			res.Fail = fmt.Sprintf("the client wrote %d bytes, %d every 40 ms for %v (never idle; its writes ended with %v); the target received %d of them, end-of-stream=%v: "+
				"the tunnel was cut when it became older than Proxy.SetTimeout(%v) - the serving loop's absolute deadline on the client connection is not an idle timeout",
				wrote, chunk, time.Since(e.openedAt).Round(time.Millisecond), werr, td.n-before, teof, e.timeout)
		}
		return res

	case "pause":
		if !e.opened || len(f) != 2 || atoi(f[1]) < 1 || atoi(f[1]) > 20000 {
			return core.Result{Impl: "bad-op"}
		}
		if time.Since(e.openedAt)+time.Duration(atoi(f[1]))*time.Millisecond > e.timeout-5*time.Second {
			// would run into the proxy's own timeout (the open finding, op outlive): not this op's subject
			return core.Result{Impl: "bad-op", SkipModel: true}
		}
		time.Sleep(time.Duration(atoi(f[1])) * time.Millisecond)
		switch ms := atoi(f[1]); {
		case ms >= 11000:
			core.Count("pause:>=11s")
		case ms >= 1000:
			core.Count("pause:1-11s")
		default:
			core.Count("pause:<1s")
		}
		return core.Result{Impl: "paused"}

	case "rd":
		if !e.opened || len(f) != 3 || (f[1] != "c" && f[1] != "t") || (f[2] != "eager" && f[2] != "slow") {
			return core.Result{Impl: "bad-op"}
		}
		who := e.c
		if f[1] == "t" {
			who = e.t
		}
		who.setSlow(f[2] == "slow")
		core.Count("rd:" + f[1] + ":" + f[2])
		return core.Result{Impl: "rd"}

	case "sendgone":
		if !e.opened || len(f) != 4 || (f[1] != "c" && f[1] != "t") {
			return core.Result{Impl: "bad-op"}
		}
		who, other := e.c, e.t
		if f[1] == "t" {
			who, other = e.t, e.c
		}
		n := atoi(f[2])
		if who.closed != "" || !other.gone() || n < 8 {
			return core.Result{Impl: "bad-op"}
		}
		core.Count("sendgone:" + f[1] + ":after-" + other.closed)
		// keep writing, with pauses, until our own write fails: a proxy's first write towards a closed
		// peer may still succeed (the kernel answers it with RST), the next one fails, the copy ends, the
		// tunnel is released and our connection closed - once per proxy on the route. No fixed number
		// of writes: on a loaded machine it just takes longer. Give up after the bound.
		off, t0, sawErr := who.sent.n, time.Now(), false
		for time.Since(t0) < bound {
			b := make([]byte, n/8)
			for j := range b {
				b[j] = pat(who.seed, off+j)
			}
			who.conn.SetWriteDeadline(time.Now().Add(bound))
			if _, err := who.conn.Write(b); err != nil {
				sawErr = true // the proxy has closed our connection: the tunnel is gone, as it should be
				break
			}
			who.sent.add(b)
			off += len(b)
			time.Sleep(4 * time.Millisecond)
		}
		if !sawErr {
			core.Count("sendgone:writes-never-failed")
		}
		who.wroteGone = true
		return core.Result{Impl: "gone"}

	case "close":
		if !e.opened || len(f) != 3 || (f[1] != "c" && f[1] != "t") || (f[2] != "half" && f[2] != "full" && f[2] != "abort") {
			return core.Result{Impl: "bad-op"}
		}
		who, other, name, oname, dir := e.c, e.t, "client", "target", "c2t"
		if f[1] == "t" {
			who, other, name, oname, dir = e.t, e.c, "target", "client", "t2c"
		}
		if who.gone() || who.closed == f[2] {
			return core.Result{Impl: e.obs()}
		}
		core.Count("close:" + f[1] + ":" + f[2])
		first := who.closed == ""
		inflight := 0 // bytes `who` has written that `other` has not yet received when `who` closes
		if d, _ := other.snap(); !other.gone() && who.sent.n > d.n {
			inflight = who.sent.n - d.n
		}
		switch f[2] {
		case "half":
			if cw, ok := who.conn.(interface{ CloseWrite() error }); ok {
				cw.CloseWrite()
			}
		case "full":
			// a graceful close: the application has read what was sent to it (closing with unread
			// bytes would be an abortive close)
			e.waitReceived(other, who)
			who.conn.Close()
			waitUntil(bound, func() bool { _, eof := who.snap(); return eof })
		case "abort":
			// what `who` has written is allowed to arrive first, so that what the other end has
			// received is determined; what is on its way TOWARDS `who` is not waited for
			if !other.gone() {
				e.waitReceived(who, other)
			}
			inflight = 0
			who.abort()
			waitUntil(bound, func() bool { _, eof := who.snap(); return eof })
		}
		who.closed = f[2]
		if inflight > 0 && first {
			core.Count("close:" + f[2] + ":with-bytes-in-flight")
			if inflight >= 1<<20 {
				core.Count("close:" + f[2] + ":with>=1MiB-in-flight")
			}
			if other.closed != "" {
				core.Count("close:final:with-bytes-in-flight")
			}
		}
		if !first {
			e.waitDelivered()
			return core.Result{Impl: e.obs()}
		}
		// the copy from `who` ends: the other end must see end-of-stream, after everything sent before
		okEOF := other.gone() || waitQuiet(func() bool { _, eof := other.snap(); return eof }, e.moved)
		e.waitDelivered()
		impl := e.obs()
		if f[2] == "abort" {
			if !okEOF {
				return core.Result{Impl: impl, Sig: "c04:eof-not-propagated-to-" + oname,
					Fail: fmt.Sprintf("the %s closed abortively (connection reset) but the %s has not seen the end of the stream %v later (idle timeout %v)", name, oname, bound, idleTimeout)}
			}
			return core.Result{Impl: impl}
		}
		if r := e.checkDir("close", who, other, dir, name, oname); r.Fail != "" {
			r.Impl = impl
			return r
		}
		if !who.gone() {
			odir := "t2c"
			if dir == "t2c" {
				odir = "c2t"
			}
			if r := e.checkDir("close", other, who, odir, oname, name); r.Fail != "" {
				r.Impl = impl
				return r
			}
		}
		if !okEOF {
			return core.Result{Impl: impl, Sig: "c04:eof-not-propagated-to-" + oname,
				Fail: fmt.Sprintf("the %s finished sending (%s close) but the %s has not seen end-of-stream %v later (idle timeout %v)", name, f[2], oname, bound, idleTimeout)}
		}
		if rst, err := other.wasReset(); rst && !other.gone() && !other.wroteGone {
			return core.Result{Impl: impl, Sig: "c04:reset-instead-of-eof-at-" + oname,
				Fail: fmt.Sprintf("the %s finished sending (%s close): the %s's stream ended with a connection reset (%v), not with end-of-stream", name, f[2], oname, err)}
		}
		return core.Result{Impl: impl}

	case "end":
		if !e.opened {
			return core.Result{Impl: "end n/a"}
		}
		// each copy has ended: its source closed, or it ran into a write error towards a closed end
		if (e.c.closed == "" && !e.c.wroteGone) || (e.t.closed == "" && !e.t.wroteGone) {
			return core.Result{Impl: "end open"}
		}
		done := make(chan bool, len(e.proxies))
		for _, p := range e.proxies {
			p := p
			go func() {
				defer func() { recover() }()
				p.Close()
				done <- true
			}()
		}
		e.released = "released"
		deadline := time.After(bound)
		for range e.proxies {
			select {
			case <-done:
			case <-deadline:
				e.released = "blocked"
			}
		}
		core.Count("end:" + e.released)
		if e.released != "released" {
			if e.c.closed == "" || e.t.closed == "" {
				// an end that is still open although its peer is gone: the statement does not say when
				// the proxy gives up on it; the model does (write error ends the copy) - compared only
				return core.Result{Impl: "end blocked"}
			}
			return core.Result{Impl: "end blocked", Sig: "c04:not-released",
				Fail: fmt.Sprintf("both ends have closed, but Proxy.Close() did not return within %v: a tunnel handler still holds its connections", bound)}
		}
		return core.Result{Impl: "end released"}
	}
	return core.Result{Impl: "bad-op"}
}

// Do runs the op; an oracle failure that depends on a wall-clock bound counts only if the whole
// case prefix reproduces it in two further runs on fresh fixtures.
func (e *ex) Do(op string) core.Result {
	e.ops = append(e.ops, op)
	r := e.do(op)
	if r.Fail == "" || e.confirm || r.Sig == "c04:setup" {
		if r.Sig == "c04:setup" && !e.confirm {
			core.Count("setup-failed")
			r.Fail, r.Sig, r.SkipModel = "", "", true
		}
		return r
	}
	if r.Sig == "c04:active-tunnel-cut-at-timeout" {
		// not a bound-dependent verdict (the op runs until the deadline has certainly passed); an open known finding
		return r
	}
	if confirmed[r.Sig] >= 2 { // this class has already reproduced 3 of 3 twice in this run: not a flake
		totalFailures++
		return r
	}
	for i := 0; i < 2; i++ {
		x := &ex{confirm: true}
		var last core.Result
		for _, o := range e.ops {
			last = x.do(o)
			if last.Fail != "" {
				break
			}
		}
		x.Close()
		if last.Fail == "" || last.Sig != r.Sig {
			core.Count("unconfirmed-timing-failure")
			core.Count("unconfirmed-timing-failure:" + r.Sig)
			fmt.Fprintf(os.Stderr, "c04: unconfirmed (did not reproduce in run %d of 3): %s: %s\n  ops: %s\n", i+2, r.Sig, r.Fail, strings.Join(e.ops, " ; "))
			last.Fail, last.Sig = "", ""
			return last
		}
	}
	confirmed[r.Sig]++
	totalFailures++
	return r
}

var confirmed = map[string]int{}

func (P) Nontrivial(ops []string, impl []string) bool {
	for _, l := range impl {
		if strings.HasPrefix(l, "status ") || strings.HasPrefix(l, "multi t=") {
			return true
		}
	}
	return false
}

var earlySizes = []int{0, 1, 517, 4096, 5000}

func b2i(b bool) int {
	if b {
		return 1
	}
	return 0
}

func genSize(r *core.Rand, tier string) int {
	switch r.Intn(12) {
	case 0:
		return 0
	case 1, 2:
		return r.Range(1, 64)
	case 3:
		return r.Range(4090, 4100)
	case 4:
		return r.Range(8190, 8194)
	case 5:
		return r.Range(32760, 32776)
	case 6, 7:
		return r.Range(65, 20000)
	case 8:
		return r.Range(20000, 300000)
	case 9:
		if r.Chance(1, 6) {
			if tier == "thorough" && r.Chance(1, 3) {
				return 4 << 20
			}
			return 1 << 20
		}
		return r.Range(1, 5000)
	default:
		return r.Range(1, 5000)
	}
}

// genBig: a size that exceeds every buffer on the path (socket buffers, the proxy's 32 KiB), so that
// most of it is still on its way when the writer's Write returns.
func genBig(r *core.Rand, tier string) int {
	switch r.Intn(4) {
	case 0:
		return r.Range(200000, 600000)
	case 1:
		return 1 << 20
	case 2:
		if tier == "thorough" && r.Chance(1, 3) {
			return 4 << 20
		}
		return 2 << 20
	default:
		return r.Range(600000, 3<<20)
	}
}

// traffic is one send/push op; `from` restricts the direction ("c", "t" or "" for both).
func traffic(r *core.Rand, tier, from string, push, big bool) string {
	nC, nT := genSize(r, tier), genSize(r, tier)
	if big {
		if r.Bool() || from == "c" {
			nC = genBig(r, tier)
		}
		if nC < 200000 || from == "t" {
			nT = genBig(r, tier)
		}
	}
	switch {
	case from == "c":
		nT = 0
	case from == "t":
		nC = 0
	default:
		switch r.Intn(5) {
		case 0:
			nC = 0
		case 1:
			nT = 0
		}
	}
	op := "send"
	if push {
		op = "push"
	}
	return fmt.Sprintf("%s %d %d %d", op, nC, nT, r.Intn(1<<30))
}

// genCase: one tunnel. Schedule classes (all combined freely):
//   - concurrent traffic both ways with random chunking/pauses, eager or slow readers on either end;
//   - either end finishes first, by CloseWrite, Close or an abortive close (RST), with or without
//     bytes still in flight in either direction at that moment;
//   - traffic in the remaining direction after a half-close, again possibly left in flight (up to
//     MiBs, towards a slow reader) when the second end closes: the proxy's final close of both
//     connections must not lose it;
//   - an end that keeps writing towards a peer that is gone (the proxy's write fails).
func genCase(r *core.Rand, tier string, route, lst, tgt string, early, banner int, class string) []string {
	ops := []string{fmt.Sprintf("open %s %s %s %d %d %d %d", route, lst, tgt, early, banner, r.Intn(256), r.Intn(256))}
	slow := map[string]bool{}
	maybeSlow := func(p int) {
		for _, w := range []string{"c", "t"} {
			if !slow[w] && r.Chance(1, p) {
				ops = append(ops, "rd "+w+" slow")
				slow[w] = true
			} else if slow[w] && r.Chance(1, 3) {
				ops = append(ops, "rd "+w+" eager")
				slow[w] = false
			}
		}
	}
	rare := 24 // how rarely another class pushes MiBs as well
	if tier == "thorough" {
		rare = 8
	}
	inflight := class == "inflight" // large amounts in flight at the closes, slow readers likely
	abortive := class == "abort"
	if inflight {
		maybeSlow(3)
	} else {
		maybeSlow(8)
	}
	pause := func() {
		// idle periods between writes: short ones often, seconds-long ones in thorough
		if tier == "thorough" && r.Chance(1, 300) {
			ops = append(ops, fmt.Sprintf("pause %d", r.Range(1000, 4000)))
		} else if r.Chance(1, 20) {
			ops = append(ops, fmt.Sprintf("pause %d", r.Range(5, 120)))
		}
	}
	for i, n := 0, r.Range(0, 3); i < n; i++ {
		pause()
		ops = append(ops, traffic(r, tier, "", false, false))
	}
	pause()
	first, second := "c", "t"
	if r.Bool() {
		first, second = "t", "c"
	}
	how1 := r.Pick("half", "half", "full")
	if abortive || r.Chance(1, 10) {
		how1 = "abort"
	}
	if inflight {
		maybeSlow(2)
		if how1 == "full" && r.Bool() {
			how1 = "half"
		}
	}
	// bytes in flight when the first end closes (from it if it closes gracefully, towards it if it
	// half-closes or aborts)
	if r.Chance(1, 3) || inflight && r.Bool() || abortive && r.Bool() {
		from := first
		if how1 == "abort" || how1 == "half" && r.Bool() {
			from = second
		}
		ops = append(ops, traffic(r, tier, from, true, inflight && r.Bool() || r.Chance(1, rare)))
	}
	ops = append(ops, "close "+first+" "+how1)
	how2 := r.Pick("half", "full")
	switch how1 {
	case "half":
		if inflight {
			maybeSlow(2)
		}
		// the other direction stays usable after a half-close
		if r.Chance(2, 3) || inflight {
			if r.Chance(1, 3) {
				ops = append(ops, traffic(r, tier, second, false, false))
			}
			push := inflight || r.Chance(1, 3)
			ops = append(ops, traffic(r, tier, second, push, inflight || r.Chance(1, rare)))
		}
		if r.Chance(1, 12) {
			how2 = "abort"
		}
	default:
		// the first end is gone: the other one may keep writing for a while
		if r.Chance(1, 2) {
			ops = append(ops, fmt.Sprintf("sendgone %s %d %d", second, r.Pick2(r.Range(8, 200), r.Range(200, 70000)), r.Intn(1<<30)))
			if r.Chance(1, 3) {
				ops = append(ops, "end")
				return ops
			}
		}
	}
	ops = append(ops, "close "+second+" "+how2)
	if how1 == "half" && r.Bool() {
		ops = append(ops, "close "+first+" "+r.Pick("full", "full", "abort"))
	}
	ops = append(ops, "end")
	return ops
}

func (P) Gen(r *core.Rand, tier string, emit0 func(ops []string)) {
	mainCases = core.Stats["corpus_cases"]
	emit := func(ops []string) { mainCases++; emit0(ops) }
	routes := []string{"direct", "via", "viafake"}
	lsts := []string{"tcp", "plain", "tls"}
	diagF := r.Intn(3)
	// a failed dial on every route/listener: every kind of dial error, at the proxy's own dial and at the
	// downstream proxy's, several on one connection (it must keep serving)
	for _, ro := range []string{"direct", "via"} {
		for _, l := range lsts {
			emit([]string{"unreach " + ro + " " + l})
			wheres := []string{"near"}
			if ro == "via" {
				wheres = []string{"near", "far"}
			}
			for _, w := range wheres {
				var ops []string
				perm := make([]int, len(dialKinds))
				for i := range perm {
					j := r.Intn(i + 1)
					perm[i] = perm[j]
					perm[j] = i
				}
				for _, i := range perm {
					ops = append(ops, fmt.Sprintf("unreach %s %s %s %s", ro, l, dialKinds[i], w))
				}
				emit(ops)
			}
		}
	}
	// the downstream proxy's answer to the CONNECT: every 2xx (any spelling) establishes the tunnel, with and
	// without tunnel bytes in the same segment; refusals are relayed
	for i, st := range fakeStatuses {
		for j, style := range fakeStyles {
			if tier != "thorough" && (i+j)%3 != int(diagF) {
				continue
			}
			l, tg := lsts[(i+j)%3], []string{"tcp", "plain"}[(i+2*j)%2]
			if st/100 == 2 {
				banner := []int{0, 700, 5, 3000}[(i+j)%4]
				c := genCase(r.Fork(), tier, "viafake", l, tg, earlySizes[(i*2+j)%len(earlySizes)], banner, "")
				head := strings.Fields(c[0])
				c[0] = fmt.Sprintf("openfake %s %s %s %s %s %s %d %s", head[2], head[3], head[4], head[5], head[6], head[7], st, style)
				emit(c)
			} else {
				emit([]string{fmt.Sprintf("openfake %s %s 0 %d %d %d %d %s", l, tg, []int{0, 5, 900}[(i+j)%3], r.Intn(256), r.Intn(256), st, style)})
			}
		}
	}
	// several tunnels at once through one proxy and one downstream proxy: gated (tunnel 0's 200 held back while
	// the others connect) and free-running, on one P and on all of them
	nM := 6
	if tier == "thorough" {
		nM = 60
	}
	for i := 0; i < nM; i++ {
		ro := []string{"viafake", "via"}[i%2]
		if i%3 == 2 {
			ro = "viafake"
		}
		gate, procs := (i/2)%2 == 0, i%4 < 2
		emit([]string{fmt.Sprintf("multi %s %s %d %d %d %d %d %d", ro, lsts[r.Intn(3)], r.Range(2, 6), earlySizes[r.Intn(len(earlySizes))],
			r.Pick2(r.Range(1, 200), r.Range(200, 3500)), r.Intn(256), b2i(gate), b2i(procs))})
	}
	nU := 12
	if tier == "thorough" {
		nU = 150
	}
	for i := 0; i < nU; i++ {
		ro := r.Pick("direct", "via")
		l := lsts[r.Intn(3)]
		var ops []string
		for j, n := 0, r.Range(1, 4); j < n; j++ {
			w := "near"
			if ro == "via" && r.Bool() {
				w = "far"
			}
			ops = append(ops, fmt.Sprintf("unreach %s %s %s %s", ro, l, dialKinds[r.Intn(len(dialKinds))], w))
		}
		emit(ops)
	}
	// every early-data size on every route and listener kind, banner alternating
	for _, ro := range routes {
		for li, l := range lsts {
			for ei, early := range earlySizes {
				if tier != "thorough" && (li+ei)%2 == 1 && ro != "direct" {
					continue
				}
				banner := []int{0, 10, 700, 0, 3000}[(ei+li)%5]
				emit(genCase(r.Fork(), tier, ro, l, r.Pick("tcp", "plain"), early, banner, ""))
			}
		}
	}
	// the whole matrix route x listener kind x dial kind, once per schedule class in thorough; in quick
	// the abortive class on the whole matrix and the in-flight class (MiBs, ~0.3 s each) on a diagonal
	tgts := []string{"tcp", "plain"}
	k, diag := 0, r.Intn(5)
	for _, ro := range routes {
		for _, l := range lsts {
			for _, tg := range tgts {
				k++
				emit(genCase(r.Fork(), tier, ro, l, tg, earlySizes[k%len(earlySizes)], 0, "abort"))
				if tier == "thorough" || k%5 == diag {
					emit(genCase(r.Fork(), tier, ro, l, tg, 0, 0, "inflight"))
				}
			}
		}
	}
	// tunnel lifetime: an idle period longer than any plausible handshake/dial deadline (10 s is a common
	// one), then traffic in both directions, a half-close, more traffic. ~12 s of wall clock per case: one in
	// quick (through a downstream martian: both connect paths are involved), every route and listener in thorough.
	longPause := func(ro, l, tg string) {
		rr := r.Fork()
		ops := []string{fmt.Sprintf("open %s %s %s %d 0 %d %d", ro, l, tg, earlySizes[rr.Intn(len(earlySizes))], rr.Intn(256), rr.Intn(256))}
		if rr.Bool() {
			ops = append(ops, traffic(rr, tier, "", false, false))
		}
		ops = append(ops, fmt.Sprintf("pause %d", rr.Range(11500, 13000)))
		ops = append(ops, fmt.Sprintf("send %d %d %d", rr.Range(1, 70000), rr.Range(1, 70000), rr.Intn(1<<30)))
		first, second := "c", "t"
		if rr.Bool() {
			first, second = "t", "c"
		}
		ops = append(ops, "close "+first+" half", traffic(rr, tier, second, false, false), "close "+second+" "+rr.Pick("half", "full"), "end")
		emit(ops)
	}
	if tier == "thorough" {
		for _, ro := range routes {
			for _, l := range lsts {
				longPause(ro, l, r.Pick("tcp", "plain"))
			}
		}
	} else {
		longPause("via", lsts[r.Intn(3)], r.Pick("tcp", "plain"))
	}
	n, nIn := 220, 4
	if tier == "thorough" {
		n, nIn = 2200, 250
		// the open finding (a busy tunnel older than the proxy's timeout) on other listener kinds and chunk sizes
		for _, l := range []string{"plain", "tls"} {
			emit([]string{fmt.Sprintf("open direct %s %s 0 0 %d %d 2500", l, r.Pick("tcp", "plain"), r.Intn(256), r.Intn(256)),
				fmt.Sprintf("outlive %d %d", r.Range(1, 4096), r.Intn(1<<30)), "close t " + r.Pick("half", "full"), "end"})
		}
	}
	for i := 0; i < n+nIn; i++ {
		early := earlySizes[r.Intn(len(earlySizes))]
		if r.Chance(1, 4) {
			early = r.Range(0, 6000)
		}
		banner := 0
		if r.Chance(1, 2) {
			banner = r.Pick2(r.Range(1, 100), r.Range(100, 3500))
		}
		class := ""
		if i >= n {
			class = "inflight"
		} else if r.Chance(1, 8) {
			class = "abort"
		}
		emit(genCase(r.Fork(), tier, routes[r.Intn(3)], lsts[r.Intn(3)], r.Pick("tcp", "plain"), early, banner, class))
	}
}
