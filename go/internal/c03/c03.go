// Package c03: property C03 over the shared exchange-machine harness (internal/pxy).
package c03

import (
	"fmt"
	"strings"

	"verif/harness/internal/core"
	"verif/harness/internal/golib"
	"verif/harness/internal/pxy"
)

// exec routes the HTTP/1 codec ops (h1.*: the reader of the model against net/http, with the
// generator's expectations judged as an oracle) to golib; everything else is the exchange machine.
type exec struct{ px *pxy.Ex }

func (e *exec) Do(op string) core.Result {
	if r, ok := golib.DoH1(op); ok {
		return r
	}
	return e.px.Do(op)
}
func (e *exec) Close() { e.px.Close() }

type P struct{}

func init() { core.Register(P{}) }

func (P) ID() string         { return "C03" }
func (P) NewExec() core.Exec { return &exec{pxy.New()} }
func (P) Nontrivial(ops []string, impl []string) bool {
	if len(ops) > 0 && strings.HasPrefix(ops[0], "h1.") {
		for _, l := range impl { // a truncation case: some prefix not complete, the whole message complete
			if strings.HasPrefix(l, "ok ") {
				return true
			}
		}
		return false
	}
	return pxy.Nontrivial(ops, impl)
}

func (P) Rule() string {
	return "case = one client connection with 1..6 requests against an origin that, per request, answers, closes before/inside the response head at offset k, sends non-HTTP bytes, or cuts a Content-Length/chunked body at offset k, each followed by further well-formed requests on the same connection; plus junk client byte strings followed by a liveness probe; plus codec cases (h1.*): every strict prefix of a well-formed Content-Length / chunked response through the real and the modelled HTTP/1 reader, the whole response followed by the next one; distinct by op-list hash; non-trivial when a 502 was produced, a later request went unserved, or >= 2 requests were served"
}

func (P) Gen(r *core.Rand, tier string, emit func([]string)) {
	n, nj := 500, 60
	if tier == "thorough" {
		n, nj = 3000, 1500
	}
	pr := pxy.Profile{Faults: true}
	for i := 0; i < n; i++ {
		emit(pxy.GenCase(r, pr))
	}
	// dial outcomes of CONNECT (refused, timed out, hung up) each followed by further requests
	prt := pxy.Profile{Faults: true, Tunnels: true}
	for i := 0; i < n/3; i++ {
		emit(pxy.GenCase(r, prt))
	}
	// exhaustive: every truncation offset of a Content-Length and of a chunked response (inside the
	// head -> 502, inside the framed body -> incomplete + close), each followed by a second request
	bodies := []int{40}
	if tier == "thorough" {
		bodies = []int{1, 40, 400}
	}
	for _, ob := range bodies {
		for _, of := range []string{"cl", "ch"} {
			second := "x m=GET tf=abs rc=0 hs=7 hdr=1 ohdr=1 rb=0 rf=cl rq=pass rs=pass o=ok st=200 ob=12 of=cl oc=0 gz=0 rcl=0"
			for k := 1; k < 90; k++ { // the head of these scripted responses is 60..90 bytes; k is clamped inside it
				emit([]string{"conn mode=seq listener=plain shutdown=0",
					fmt.Sprintf("x m=GET tf=abs rc=0 hs=3 hdr=1 ohdr=1 rb=0 rf=cl rq=pass rs=pass o=fail fk=head k=%d st=200 ob=%d of=%s oc=0 gz=0 rcl=0", k, ob, of),
					second, "end"})
			}
			framed := ob
			if of == "ch" {
				framed = ob + 12 // chunk-size lines and the last-chunk: cut inside the framing too
			}
			for k := 0; k < framed; k++ {
				emit([]string{"conn mode=seq listener=plain shutdown=0",
					fmt.Sprintf("x m=GET tf=abs rc=0 hs=3 hdr=1 ohdr=1 rb=0 rf=cl rq=pass rs=pass o=trunc k=%d st=200 ob=%d of=%s oc=0 gz=0 rcl=0", k, ob, of),
					second, "end"})
			}
		}
	}
	// the same clause at the level of the bytes, with the HTTP/1 reader inside the model: every strict
	// prefix of a Content-Length / chunked response is never a complete message (real reader = oracle,
	// modelled reader = differential), a complete one leaves the next response untouched
	nt := 40
	if tier == "thorough" {
		nt = 400
	}
	for i := 0; i < nt; i++ {
		mb := 120
		if i%4 == 3 {
			mb = 5000
		}
		emit(golib.GenH1Trunc(r, mb))
	}
	seeds := []string{"GET / HTTP/1.1\r\n\r\n", "GET http://[::1 HTTP/1.1\r\nHost: x\r\n\r\n", "POST / HTTP/1.1\r\nContent-Length: -1\r\n\r\n", "CONNECT HTTP/1.1\r\n\r\n",
		"GET / HTTP/1.1\r\nTransfer-Encoding: chunked\r\n\r\nZZ\r\n", "\x16\x03\x01\x02\x00\x01\x00\x01\xfc\x03\x03", "PRI * HTTP/2.0\r\n\r\nSM\r\n\r\n", "GET / HTTP/9.9\r\nHost: a\r\n\r\n",
		"GET /%zz HTTP/1.1\r\nHost: a\r\n\r\n", "POST / HTTP/1.1\r\nHost: a\r\nContent-Length: 10\r\n\r\nabc", "GET / HTTP/1.1\r\nHost: a\r\nRange: bytes=5-1\r\n\r\n"}
	for i := 0; i < nj; i++ {
		var ops []string
		for j := 0; j < 5; j++ {
			var b []byte
			if r.Bool() {
				b = []byte(seeds[r.Intn(len(seeds))])
				for k := 0; k < r.Intn(4) && len(b) > 0; k++ {
					b[r.Intn(len(b))] = byte(r.U64())
				}
			} else {
				b = r.Bytes(r.Range(1, 200))
			}
			ops = append(ops, "junk "+core.Hex(b))
		}
		emit(ops)
	}
	// last, so that the cases above are what they were before this dimension existed: a MITM configuration
	// whose handshake error callback was cleared, and a tunnel handshake that fails (seeded C03-R)
	for i := 0; i < nj/5; i++ {
		emit(pxy.GenNoCallbackCase(r, prt))
	}
}
