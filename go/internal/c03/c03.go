// Package c03: STUB — property C03 is not built yet.
package c03

import "verif/harness/internal/core"

type P struct{}

func init() { core.Register(P{}) }

func (P) ID() string   { return "C03" }
func (P) Rule() string { return "stub" }
func (P) Gen(r *core.Rand, tier string, emit func([]string)) {}
func (P) NewExec() core.Exec                                   { return ex{} }
func (P) Nontrivial(ops []string, impl []string) bool         { return false }

type ex struct{}

func (ex) Do(op string) core.Result { return core.Result{Impl: "bad-op"} }
func (ex) Close()                   {}
