package c06

import (
	"fmt"
	"strings"

	"verif/harness/internal/core"
)

// ---- host spellings ----

var dnsBases = []string{"example.com", "a.example.com", "xn--bcher-kva.example", "host-1.internal", "localhost", "b.co", "ab--cd.example.com", "r3---x.internal",
	"very-long-label-0123456789-0123456789-0123456789.example.org", "3com.net", "a", "x1.y2.z3.example"}
var v4Bases = []string{"10.0.0.1", "127.0.0.1", "192.168.1.254", "255.255.255.255", "0.0.0.0", "8.8.8.8"}
var v6Bases = []string{"::1", "2001:db8::1", "fe80::1:2:3:4", "::", "2001:db8:0:0:0:0:0:1", "0:0:0:0:0:0:0:1", "::ffff:10.0.0.1",
	"2001:DB8::A", "1:2:3:4:5:6:7:8", "64:ff9b::192.0.2.33"}
var ports = []string{"443", "8443", "80", "1", "65535", "0"}

func mixCase(r *core.Rand, s string) string {
	switch r.Intn(4) {
	case 0:
		return s
	case 1:
		return strings.ToUpper(s)
	}
	b := []byte(s)
	for i := range b {
		if b[i] >= 'a' && b[i] <= 'z' && r.Bool() {
			b[i] -= 32
		}
	}
	return string(b)
}

// spell gives one listed spelling of a base host.
func port(r *core.Rand) string {
	if r.Chance(1, 3) {
		return fmt.Sprint(r.Intn(65536))
	}
	return r.Pick(ports...)
}

func spell(r *core.Rand, base string) string {
	isV6 := strings.Contains(base, ":")
	isDNS := !isV6 && (base[0] < '0' || base[0] > '9' || strings.Contains(base, "com") || reLDH.MatchString(base) && !reAllNums.MatchString(base))
	h := base
	if isDNS {
		h = mixCase(r, base)
	} else if isV6 && r.Chance(1, 4) {
		h = strings.ToUpper(base)
	}
	if r.Chance(1, 2) {
		core.Count("spelling:with-port")
		if isV6 {
			return "[" + h + "]:" + port(r)
		}
		return h + ":" + port(r)
	}
	core.Count("spelling:bare")
	return h
}

var emptyHosts = []string{"", ":443", ":", ":80", "[]:443"}
var oddHosts = []string{"[::1]", "[2001:db8::1]", "[::1", "::1]", "a:b:c", "exa mple.com", "*.example.com", "example.com.", ".", "..",
	"ex\xc3\xa4mple.com", "1.2.3.4.5", "::1%eth0", "01.2.3.4", "[::1]:", "example.com:", "[::1]:443:1", "example.com:443:443", "[example.com]:443",
	"[1.2.3.4]:80", "1.2.3", "256.1.1.1", "-a.example.com", "a_b.example.com", "example.com:https", "[::1]x:443", "x[::1]:443", "::1:443",
	"[[::1]]:443", "[::1]]:443", "1:2:3:4:5:6:7:8:9", ":::", "[:::]:1", "\x00", "a\x80b", "[::ffff:1.2.3.4]:1", "[.]:1", ".:1", "[fe80::1%25eth0]:443"}

func pool(r *core.Rand, n int) []string {
	var p []string
	for i := 0; i < n; i++ {
		if r.Chance(1, 2) { // a member of the class, not of the table
			p = append(p, genBase(r))
			continue
		}
		switch r.Intn(6) {
		case 0:
			p = append(p, v4Bases[r.Intn(len(v4Bases))])
		case 1, 2:
			p = append(p, v6Bases[r.Intn(len(v6Bases))])
		default:
			p = append(p, dnsBases[r.Intn(len(dnsBases))])
		}
	}
	return p
}

func sniFor(r *core.Rand, p []string) string {
	if r.Chance(1, 2) {
		return ""
	}
	if r.Chance(1, 12) { // SNI that is not a plain DNS name (only reachable by calling GetCertificate directly)
		return spell(r, p[r.Intn(len(p))])
	}
	return mixCase(r, dnsBases[r.Intn(len(dnsBases))])
}

func getOp(r *core.Rand, p []string, allowHS bool) string {
	op, _ := getOpHost(r, p, allowHS)
	return op
}

// getOpHost also returns the host the request names (SNI, else the fallback of TLSForHost; "" if none).
func getOpHost(r *core.Rand, p []string, allowHS bool) (string, string) {
	fb := spell(r, p[r.Intn(len(p))])
	if r.Chance(1, 14) {
		fb = emptyHosts[r.Intn(len(emptyHosts))]
	}
	sni := ""
	if r.Chance(1, 3) {
		sni = sniFor(r, p)
	}
	mode := "host"
	if r.Chance(1, 7) {
		mode = "tls"
		fb = ""
		if r.Chance(2, 3) {
			sni = sniFor(r, p)
		}
	}
	op := "get"
	if allowHS && r.Chance(1, 4) && (sni == "" || reLDH.MatchString(sni) && !reAllNums.MatchString(sni)) {
		op = "hs"
	}
	host := sni
	if host == "" {
		host = fb
	}
	return fmt.Sprintf("%s %s %s %s", op, mode, core.HexS(fb), core.HexS(sni)), host
}

func hexList(hs []string) string {
	var o []string
	for _, h := range hs {
		o = append(o, core.HexS(h))
	}
	if len(o) == 0 {
		return "-"
	}
	return strings.Join(o, ",")
}

func concOp(r *core.Rand, p []string, n int) string {
	var hs []string
	for i := 0; i < n; i++ {
		base := p[i%len(p)]
		h := base
		if r.Chance(1, 3) { // same cache key, different spelling (port); case changes would be another key
			if strings.Contains(base, ":") {
				h = "[" + base + "]:" + port(r)
			} else {
				h = base + ":" + port(r)
			}
		}
		hs = append(hs, h)
	}
	// shuffle
	for i := len(hs) - 1; i > 0; i-- {
		j := r.Intn(i + 1)
		hs[i], hs[j] = hs[j], hs[i]
	}
	return "conc " + hexList(hs)
}

// ---- stdlib strings ----

func genV4(r *core.Rand) string {
	n := 4
	if r.Chance(1, 6) {
		n = r.Range(1, 6)
	}
	var f []string
	for i := 0; i < n; i++ {
		switch r.Intn(12) {
		case 0:
			f = append(f, "0")
		case 1:
			f = append(f, "255")
		case 2:
			f = append(f, r.Pick("256", "300", "1000", "00", "01", "007", "", "1a", "-1", "+1", " 1", "0x1"))
		default:
			f = append(f, fmt.Sprint(r.Intn(256)))
		}
	}
	return strings.Join(f, ".")
}

func genV6(r *core.Rand) string {
	n := r.Range(0, 9)
	var g []string
	for i := 0; i < n; i++ {
		switch r.Intn(10) {
		case 0:
			g = append(g, r.Pick("0", "00", "000", "0000", "ffff", "FFFF", "Ab0c"))
		case 1:
			g = append(g, r.Pick("12345", "g", "", "1g", "-1", "fffff"))
		default:
			g = append(g, fmt.Sprintf("%x", r.Intn(1<<uint(4*r.Range(1, 4)))))
		}
	}
	s := strings.Join(g, ":")
	if r.Chance(2, 3) { // place an ellipsis
		k := r.Intn(n + 1)
		s = strings.Join(g[:k], ":") + "::" + strings.Join(g[k:], ":")
	}
	if r.Chance(1, 5) {
		if s != "" && !strings.HasSuffix(s, ":") {
			s += ":"
		}
		s += genV4(r)
	}
	if r.Chance(1, 15) {
		s += r.Pick("%eth0", "%", "%1", ":", "::", ".", " ")
	}
	if r.Chance(1, 15) {
		s = r.Pick(":", "::", "[", " ", ".") + s
	}
	return s
}

func mutate(r *core.Rand, s string) string {
	if s == "" || !r.Chance(1, 8) {
		return s
	}
	b := []byte(s)
	alpha := "0123456789abcdefABCDEFxyz:.[]%- "
	switch r.Intn(3) {
	case 0:
		b[r.Intn(len(b))] = alpha[r.Intn(len(alpha))]
	case 1:
		i := r.Intn(len(b))
		b = append(b[:i], b[i+1:]...)
	case 2:
		i := r.Intn(len(b) + 1)
		b = append(b[:i], append([]byte{alpha[r.Intn(len(alpha))]}, b[i:]...)...)
	}
	return string(b)
}

func genIPString(r *core.Rand) string {
	switch r.Intn(11) {
	case 10:
		return mutate(r, genValidV6(r))
	case 0:
		return v6Bases[r.Intn(len(v6Bases))]
	case 1:
		return r.Pick("", ".", ":", "::", ":::", "1", "a", "%", "1.2.3.4%x", "::%x", "::ffff:1.2.3.4", "::1.2.3.4", "1:2:3:4:5:6:1.2.3.4",
			"1:2:3:4:5:6:7:1.2.3.4", "1:2:3:4:5:1.2.3.4", "::2:3:4:5:6:7:8", "1:2:3:4:5:6:7::", "1:2:3:4:5:6:7:8::", "::1:2:3:4:5:6:7:8",
			"1::2::3", "1:2:3:4:5:6:7", "1:2:3:4:5:6:7:8:9", "::1.2.3", "::1.2.3.4.5", "1.2.3.4:", "1::", "::012.1.1.1", "::00001", "::ffff:1.2.3.04",
			"1:2:3:4:5::6:1.2.3.4", "1:2:3:4:5:6:7:1.2.3.4", "::1:2:3:4:5:6:1.2.3.4", "1:2::3:4:5:6:7:1.2.3.4")
	case 2, 3, 4:
		return mutate(r, genV4(r))
	default:
		return mutate(r, genV6(r))
	}
}

func genHostPort(r *core.Rand) string {
	var host string
	switch r.Intn(10) {
	case 8:
		host = genValidV6(r)
	case 9:
		host = genBase(r)
	case 0:
		host = ""
	case 1:
		host = genV4(r)
	case 2, 3:
		host = genV6(r)
	case 4:
		host = oddHosts[r.Intn(len(oddHosts))]
	default:
		host = mixCase(r, dnsBases[r.Intn(len(dnsBases))])
	}
	port := r.Pick("443", "80", "", "https", "0", "65536", "4:4", "[", "]")
	switch r.Intn(10) {
	case 0:
		return host
	case 1:
		return "[" + host + "]"
	case 2, 3, 4:
		return mutate(r, "["+host+"]:"+port)
	case 5:
		return mutate(r, r.Pick("[", "]", "[[", "x[", "")+host+r.Pick("]", "[", "]]", "]x", "")+r.Pick(":", "", "::")+port)
	default:
		return mutate(r, host+":"+port)
	}
}

// ---- cases ----

func (P) Gen(r *core.Rand, tier string, emit func([]string)) {
	nBasic, nExp, nConc, nRef, nOdd, nLib, nVfy, nPoll, nFault, nSelf := 12, 4, 6, 4, 5, 60, 25, 1, 2, 6
	if tier == "thorough" {
		nBasic, nExp, nConc, nRef, nOdd, nLib, nVfy, nPoll, nFault, nSelf = 160, 30, 60, 30, 60, 3000, 600, 8, 40, 60
	}
	// the configuration space: the CA may be of any key kind NewConfig accepts (its signature says `interface{}`)
	caOp := func(num, den int) []string {
		if r.Chance(num, den) {
			return []string{"ca " + r.Pick(caKinds...)}
		}
		return nil
	}
	// hosts drawn from the names the configuration itself carries — the authority's own name (CN = DNS SAN), its
	// organisation, the leaf organisation — in the same case, another case, with a port, as SNI and as CONNECT host;
	// leaf organisation equal to / different from the authority's; every CA key kind. A leaf for the authority's own
	// name may coincide with the CA certificate in subject and SAN; it must still chain to it.
	for i := 0; i < nSelf; i++ {
		kind := r.Pick("rsa", "rsa", "rsa", "rsa3072", "p256", "ed25519", "faulty", "p384")
		leafOrg := r.Pick(caOrg, caOrg, caOrg, caOrg, "Martian Proxy", "Acme")
		ops := []string{"ca " + kind}
		if leafOrg != "Martian Proxy" || r.Bool() {
			ops = append(ops, "org "+core.HexS(leafOrg))
		}
		own := []string{caName(kind), caName(kind), caName(kind), caOrg, leafOrg, "Martian Proxy", caName("rsa")}
		ordinary := pool(r, 2)
		// the own name as it stands, in each way a client can name it
		switch r.Intn(3) {
		case 0:
			ops = append(ops, "get host "+core.HexS(caName(kind))+" -")
		case 1:
			ops = append(ops, "hs host "+core.HexS(caName(kind)+":"+port(r))+" -")
		default:
			ops = append(ops, "hs tls - "+core.HexS(caName(kind)))
		}
		for j, k := 0, r.Range(10, 18); j < k; j++ {
			name := own[r.Intn(len(own))]
			if r.Chance(1, 4) {
				name = ordinary[r.Intn(len(ordinary))]
			}
			h := name
			switch r.Intn(5) {
			case 0:
				h = mixCase(r, name)
			case 1:
				h = strings.ToUpper(name)
			}
			ldh := reLDH.MatchString(h) && !reAllNums.MatchString(h)
			if strings.Contains(name, ":") {
				h, ldh = name, false
			}
			withPort := h
			if r.Bool() {
				if strings.Contains(h, ":") {
					withPort = "[" + h + "]:" + port(r)
				} else {
					withPort = h + ":" + port(r)
				}
			}
			op := "get"
			if r.Chance(1, 3) {
				op = "hs"
			}
			switch r.Intn(4) {
			case 0: // CONNECT authority, no SNI
				ops = append(ops, fmt.Sprintf("%s host %s -", op, core.HexS(withPort)))
			case 1: // SNI over an unrelated CONNECT authority
				if !ldh {
					op = "get"
				}
				ops = append(ops, fmt.Sprintf("%s host %s %s", op, core.HexS(spell(r, ordinary[0])), core.HexS(h)))
			case 2: // TLS(): SNI only
				if !ldh {
					op = "get"
				}
				ops = append(ops, fmt.Sprintf("%s tls - %s", op, core.HexS(h)))
			default:
				ops = append(ops, fmt.Sprintf("%s host %s -", op, core.HexS(withPort)))
			}
			if r.Chance(1, 5) {
				ops = append(ops, "vhl "+core.HexS(respell(r, name)))
			}
			if r.Chance(1, 10) {
				leafOrg = r.Pick(caOrg, "Martian Proxy", "Acme")
				ops = append(ops, "org "+core.HexS(leafOrg))
			}
		}
		emit(ops)
	}
	for i := 0; i < nFault; i++ { // fault injection at the signing step x cache state (miss / valid hit / expired hit)
		p := []string{genBase(r), genBase(r), genBase(r), genBase(r)}
		g := func(h string, hs bool) string {
			if hs {
				return "hs host " + core.HexS(spell(r, h)) + " -"
			}
			return "get host " + core.HexS(spell(r, h)) + " -"
		}
		ops := []string{"ca " + r.Pick("faulty", "faultyec"), "realtime"}
		if i%2 == 0 { // scripted: issue, signer down, hits and misses, expiry with the signer down, signer back
			ops = append(ops, "validity 2", g(p[0], false), g(p[1], false), "validity 3600", g(p[2], false), "validity 2",
				"signfail on", g(p[0], false), g(p[3], false), g(p[1], true), g(p[2], false),
				"expire", g(p[0], false), g(p[1], true), g(p[2], false), g(p[3], false), concOp(r, p, 8), g(p[0], false),
				"signfail off", g(p[0], false), g(p[1], true), g(p[3], false), g(p[2], false))
		} else { // random: the signer fails from the k-th call on / for a while
			ops = append(ops, "validity "+r.Pick("2", "2", "3600"))
			expired := false
			for j, k := 0, r.Range(14, 26); j < k; j++ {
				switch r.Intn(9) {
				case 0, 1:
					ops = append(ops, "signfail "+r.Pick("on", "on", "off"))
				case 2:
					if !expired {
						ops = append(ops, "expire")
						expired = true
					} else {
						ops = append(ops, "validity "+r.Pick("2", "3600"))
					}
				case 3:
					ops = append(ops, concOp(r, p, 6))
				default:
					ops = append(ops, g(p[r.Intn(len(p))], r.Chance(1, 5)))
				}
			}
			ops = append(ops, "signfail off", g(p[0], false), g(p[1], false))
		}
		emit(ops)
	}
	for i := 0; i < nPoll; i++ { // steady traffic to a host across the end of its 2-second leaf (and of a second one, 300 ms out of phase)
		p := []string{genBase(r), genBase(r)}
		ops := append(caOp(1, 2), "realtime", "validity 2")
		ops = append(ops, "get host "+core.HexS(spell(r, p[0]))+" -", fmt.Sprintf("sleep %d", r.Range(200, 400)), "get host "+core.HexS(spell(r, p[1]))+" -")
		for j, iv := 0, r.Range(25, 50); j*iv < 2500; j++ {
			ops = append(ops, fmt.Sprintf("sleep %d", iv))
			h := p[j%2]
			if r.Chance(1, 6) {
				ops = append(ops, "hs host "+core.HexS(spell(r, h))+" -")
			} else {
				ops = append(ops, "get host "+core.HexS(spell(r, h))+" -")
			}
		}
		emit(ops)
	}
	orgs := []string{"Martian Proxy", "Acme", "Org With Spaces, Inc.", "x", caOrg}
	for i := 0; i < nBasic; i++ {
		p := pool(r, r.Range(2, 5))
		ops := caOp(1, 2)
		if r.Chance(1, 4) {
			ops = append(ops, "h2 1")
		}
		if r.Chance(1, 2) {
			ops = append(ops, "org "+core.HexS(r.Pick(orgs...)))
		}
		if r.Chance(1, 3) {
			ops = append(ops, "validity "+r.Pick("60", "3600", "7200", "86400"))
		}
		k := r.Range(10, 28)
		for j := 0; j < k; j++ {
			if r.Chance(1, 18) {
				ops = append(ops, "org "+core.HexS(r.Pick(orgs...)))
			}
			op, host := getOpHost(r, p, true)
			ops = append(ops, op)
			if _, class := classify(host); class == "listed" && r.Chance(1, 3) {
				ops = append(ops, afterGet(r, host, p)...)
			}
		}
		emit(ops)
	}
	for i := 0; i < nVfy; i++ { // the verifier itself: hand-made certificates x host spellings x window edges
		var ops []string
		for j := 0; j < 24; j++ {
			if r.Chance(2, 3) {
				ops = append(ops, vhOp(r))
			} else {
				ops = append(ops, vfyOp(r))
			}
		}
		emit(ops)
	}
	for i := 0; i < nExp; i++ { // expiry: 2-second certificates, sleep past the window, ask again
		p := pool(r, r.Range(2, 4))
		ops := append(caOp(1, 3), "realtime", "validity 2")
		for round := 0; round < 2; round++ {
			for j := 0; j < r.Range(3, 6); j++ {
				ops = append(ops, getOp(r, p, j%2 == 1))
			}
			if round == 0 {
				if r.Chance(1, 2) {
					ops = append(ops, "validity "+r.Pick("3600", "7200"))
					ops = append(ops, getOp(r, p, false)) // a long-lived one that must survive the sleep
				}
				ops = append(ops, "expire")
				if r.Chance(1, 2) {
					ops = append(ops, "validity 3600")
				}
				if r.Chance(1, 3) {
					ops = append(ops, concOp(r, p, 8))
				}
				for _, b := range p { // every host of the pool again, bare spelling, no SNI
					ops = append(ops, "get host "+core.HexS(b)+" -")
				}
			}
		}
		emit(ops)
	}
	for i := 0; i < nConc; i++ {
		p := pool(r, 4)
		ops := caOp(1, 3)
		warm := r.Intn(4)
		if i%2 == 0 {
			warm = 0 // cold start: the very first requests a Config sees arrive together
		}
		for j := 0; j < warm; j++ {
			ops = append(ops, getOp(r, p, false))
		}
		ops = append(ops, concOp(r, p, 16))
		for _, b := range p {
			ops = append(ops, "get host "+core.HexS(b)+" -")
		}
		if r.Chance(1, 2) {
			ops = append(ops, concOp(r, p, 16))
		}
		emit(ops)
	}
	for i := 0; i < nRef; i++ { // refusal: no SNI and no usable fallback, next to hosts that must be served
		p := pool(r, 2)
		ops := caOp(1, 3)
		for j := 0; j < 8; j++ {
			op := r.Pick("get", "get", "hs")
			switch r.Intn(4) {
			case 0:
				ops = append(ops, op+" tls - -")
			case 1:
				ops = append(ops, op+" host "+core.HexS(emptyHosts[r.Intn(len(emptyHosts))])+" -")
			case 2:
				ops = append(ops, op+" host "+core.HexS(emptyHosts[r.Intn(len(emptyHosts))])+" "+core.HexS(mixCase(r, dnsBases[r.Intn(len(dnsBases))])))
			default:
				ops = append(ops, getOp(r, p, true))
			}
		}
		emit(ops)
	}
	for i := 0; i < nOdd; i++ { // excluded and malformed spellings
		p := pool(r, 2)
		var ops []string
		for j := 0; j < 10; j++ {
			h := oddHosts[r.Intn(len(oddHosts))]
			if r.Chance(1, 4) {
				h = genHostPort(r)
			}
			switch r.Intn(4) {
			case 0:
				ops = append(ops, "get tls - "+core.HexS(h))
			case 1:
				ops = append(ops, "get host "+core.HexS(spell(r, p[0]))+" "+core.HexS(h))
			default:
				ops = append(ops, "get host "+core.HexS(h)+" -")
			}
		}
		emit(ops)
	}
	for i := 0; i < nLib; i++ {
		var ops []string
		for j := 0; j < 25; j++ {
			if r.Bool() {
				ops = append(ops, "parseip "+core.HexS(genIPString(r)))
			} else {
				ops = append(ops, "shp "+core.HexS(genHostPort(r)))
			}
		}
		emit(ops)
	}
}
