package c06

import (
	"fmt"
	"net"
	"strings"

	"verif/harness/internal/core"
)

// ---- random valid literals and names (the CLASS of each listed spelling, not a fixed table) ----

// genValidV6 draws a syntactically valid IPv6 literal: 8 groups, optionally ::-compressed, optionally with an
// embedded dotted quad, groups of 1-4 hex digits; with probability 1/2 the last group is all decimal digits
// (the class in which "the last colon separates the port" heuristics cut an address short).
func genValidV6(r *core.Rand) string {
	n := 8
	v4tail := r.Chance(1, 6)
	if v4tail {
		n = 6
	}
	g := make([]string, n)
	for i := range g {
		switch r.Intn(6) {
		case 0:
			g[i] = "0"
		case 1:
			g[i] = fmt.Sprint(r.Intn(10000)) // decimal digits only
		default:
			g[i] = fmt.Sprintf("%x", r.Intn(1<<uint(4*r.Range(1, 4))))
		}
	}
	if !v4tail && r.Chance(1, 2) {
		g[n-1] = r.Pick("1", "7", "443", "80", "8443", "0", "22", "9999", fmt.Sprint(r.Intn(10000)))
	}
	s := strings.Join(g, ":")
	if r.Chance(2, 3) { // compress a run of groups (they become zero)
		a := r.Intn(n)
		b := a + r.Range(1, n-a)
		s = strings.Join(g[:a], ":") + "::" + strings.Join(g[b:], ":")
	}
	if v4tail {
		if !strings.HasSuffix(s, ":") {
			s += ":"
		}
		s += fmt.Sprintf("%d.%d.%d.%d", r.Intn(256), r.Intn(256), r.Intn(256), r.Intn(256))
	}
	if net.ParseIP(s) == nil || !strings.Contains(s, ":") { // cannot happen; keep the generator honest
		core.Count("gen:v6-invalid")
		return "2001:db8::" + fmt.Sprint(r.Intn(10000))
	}
	if r.Chance(1, 4) {
		s = strings.ToUpper(s)
	}
	return s
}

func genValidV4(r *core.Rand) string {
	return fmt.Sprintf("%d.%d.%d.%d", r.Intn(256), r.Intn(256), r.Intn(256), r.Intn(256))
}

// genLDH draws an LDH DNS name: 1-4 labels of letters, digits and inner hyphens (punycode labels included); the
// last label starts with a letter so that the name is never a dotted quad.
func genLDH(r *core.Rand) string {
	const al = "abcdefghijklmnopqrstuvwxyz"
	const an = "abcdefghijklmnopqrstuvwxyz0123456789"
	n := r.Range(1, 4)
	var labels []string
	for i := 0; i < n; i++ {
		if r.Chance(1, 8) {
			labels = append(labels, r.Pick("xn--bcher-kva", "xn--nxasmq6b", "xn--p1ai", "xn--80ak6aa92e"))
			continue
		}
		k := r.Range(1, 10)
		b := make([]byte, k)
		for j := range b {
			b[j] = an[r.Intn(len(an))]
			if j > 0 && j < k-1 && r.Chance(1, 6) {
				b[j] = '-'
			}
		}
		if k >= 4 && r.Chance(1, 5) { // the full LDH grammar: a run of 2-3 hyphens at any inner offset (1, 2 = "R-LDH" position, …)
			at := r.Range(1, k-3)
			for j := at; j < at+r.Range(2, 3) && j < k-1; j++ {
				b[j] = '-'
			}
		}
		if i == n-1 {
			b[0] = al[r.Intn(len(al))]
		}
		labels = append(labels, string(b))
	}
	return strings.Join(labels, ".")
}

// genBase draws the bare form of a listed host.
func genBase(r *core.Rand) string {
	switch r.Intn(6) {
	case 0:
		return genValidV4(r)
	case 1, 2:
		return genValidV6(r)
	default:
		return genLDH(r)
	}
}

// ---- spellings of one host for the verifier (no port: VerifyHostname takes a host) ----

func expandV6(ip net.IP) string {
	ip = ip.To16()
	var g []string
	for i := 0; i < 16; i += 2 {
		g = append(g, fmt.Sprintf("%x", int(ip[i])<<8|int(ip[i+1])))
	}
	return strings.Join(g, ":")
}

// respell gives another spelling of the same or of a nearby host.
func respell(r *core.Rand, h string) string {
	if ip := net.ParseIP(h); ip != nil {
		s := ip.String()
		switch r.Intn(12) {
		case 0:
			return s
		case 1:
			return strings.ToUpper(s)
		case 2:
			return "[" + s + "]"
		case 3:
			return expandV6(ip)
		case 4:
			return "[" + strings.ToUpper(expandV6(ip)) + "]"
		case 5:
			if v4 := ip.To4(); v4 != nil {
				return r.Pick("::ffff:", "::FFFF:", "0:0:0:0:0:ffff:") + v4.String()
			}
			return s
		case 6:
			if v4 := ip.To4(); v4 != nil {
				return fmt.Sprintf("::ffff:%x:%x", int(v4[0])<<8|int(v4[1]), int(v4[2])<<8|int(v4[3]))
			}
			return expandV6(ip)
		case 7:
			return s + r.Pick("%eth0", "%1", "%25eth0", ".", ":", " ")
		case 8:
			return "[" + s + r.Pick("%eth0]", "%25eth0]", "", "]]", "]:443")
		case 9: // a neighbour address
			b := append(net.IP(nil), ip.To16()...)
			b[15] ^= byte(1 << uint(r.Intn(8)))
			return b.String()
		case 10:
			if v4 := ip.To4(); v4 != nil {
				return fmt.Sprintf("%d.%d.%d.0%d", v4[0], v4[1], v4[2], v4[3]) // leading zero: not an IP for Go
			}
			return "0" + s
		default:
			return s
		}
	}
	switch r.Intn(14) {
	case 0:
		return h
	case 1:
		return strings.ToUpper(h)
	case 2:
		return mixCase(r, h)
	case 3:
		return mixCase(r, h) + "."
	case 4:
		return h + ".."
	case 5:
		return r.Pick("a.", "www.", "x.y.", "*.") + h
	case 6:
		if i := strings.IndexByte(h, '.'); i >= 0 {
			return h[i+1:]
		}
		return h + ".example"
	case 7:
		return strings.Replace(h, "*", r.Pick("a", "a.b", "", "A", "*"), 1)
	case 8:
		return r.Pick("x", "-", "_", " ") + h
	case 9:
		return strings.TrimSuffix(h, ".")
	case 10:
		return "[" + h + "]"
	case 11:
		return h + r.Pick(":443", " ", "\x00", "\xc3\xa4")
	case 12:
		return "." + h
	default:
		return mixCase(r, strings.TrimSuffix(h, ".")) + r.Pick("", ".")
	}
}

var sanNames = []string{"*.example.com", "*.a.example.com", "*", "*.", "*.com", "a*.example.com", "*a.example.com", "a.*.example.com",
	"*.*.example.com", "", ".", "a..b", ".example.com", "example.com.", "-a.example.com", "a-.example.com", "a_b.example.com",
	"_dmarc.example.com", "[::1]", "1.2.3.4", "::1", "exa mple.com", "example.com:443", "EXAMPLE.COM", "ExAmPlE.cOm", "ex\xc3\xa4mple.com",
	"xn--bcher-kva.example", "a", "A.B", "1", "1.2", "a.b.c.d.e.f", "*.b.co"}

func ip16(s string) string { return string(net.ParseIP(s).To16()) }

// genSAN draws SAN sets: what this code issues (one DNS name or one IP) most of the time, otherwise several entries,
// wildcards, and names x509 treats specially.
func genSAN(r *core.Rand) (names, ips []string) {
	dns := func() string {
		switch r.Intn(5) {
		case 0:
			return sanNames[r.Intn(len(sanNames))]
		case 1:
			return mixCase(r, dnsBases[r.Intn(len(dnsBases))])
		case 2:
			return "*." + genLDH(r)
		default:
			return mixCase(r, genLDH(r))
		}
	}
	ipS := func() string {
		switch r.Intn(4) {
		case 0:
			return ip16(v4Bases[r.Intn(len(v4Bases))])
		case 1:
			return ip16(v6Bases[r.Intn(len(v6Bases))])
		case 2:
			return ip16(genValidV4(r))
		default:
			return ip16(genValidV6(r))
		}
	}
	switch r.Intn(8) {
	case 0, 1, 2:
		names = []string{dns()}
	case 3, 4:
		ips = []string{ipS()}
	case 5:
		for i := r.Range(2, 3); i > 0; i-- {
			names = append(names, dns())
		}
	case 6:
		names = []string{dns()}
		ips = []string{ipS()}
		if r.Bool() {
			ips = append(ips, ipS())
		}
	}
	return
}

// genVHost draws the host to verify: mostly a respelling of one SAN entry, otherwise anything.
func genVHost(r *core.Rand, names, ips []string) string {
	n := len(names) + len(ips)
	if n > 0 && !r.Chance(1, 6) {
		k := r.Intn(n)
		if k < len(names) {
			return respell(r, names[k])
		}
		return respell(r, net.IP(ips[k-len(names)]).String())
	}
	switch r.Intn(6) {
	case 0:
		return oddHosts[r.Intn(len(oddHosts))]
	case 1:
		return genIPString(r)
	case 2:
		return respell(r, genBase(r))
	case 3:
		return sanNames[r.Intn(len(sanNames))]
	case 4:
		return ""
	default:
		return mixCase(r, dnsBases[r.Intn(len(dnsBases))])
	}
}

func vhOp(r *core.Rand) string {
	names, ips := genSAN(r)
	return fmt.Sprintf("vh %s %s %s", hexList(names), hexList(ips), core.HexS(genVHost(r, names, ips)))
}

// vfyOp: the window edges (whole seconds) against a clock in milliseconds, crossed with name and chain outcomes so
// that the order of the three checks shows.
func vfyOp(r *core.Rand) string {
	names, ips := genSAN(r)
	nb := r.Pick("-3600", "-2", "-1", "0", "1")
	na := r.Pick("0", "1", "2", "3600", "-1")
	var nbv, nav int
	fmt.Sscan(nb, &nbv)
	fmt.Sscan(na, &nav)
	edge := nbv
	if r.Bool() {
		edge = nav
	}
	now := edge*1000 + []int{-1001, -1000, -999, -1, 0, 1, 999, 1000, 1001, 500}[r.Intn(10)]
	if r.Chance(1, 5) {
		now = (nbv + nav) * 500
	}
	if r.Chance(2, 5) { // well inside a wide window: the name and the chain decide
		nb, na, now = "-3600", "3600", r.Intn(2000)-1000
	}
	host := genVHost(r, names, ips)
	if r.Chance(1, 8) {
		host = ""
	}
	signer := "ca"
	if r.Chance(1, 4) {
		signer = "other"
	}
	return fmt.Sprintf("vfy %s %s %s %s %s %s %d", hexList(names), hexList(ips), signer, nb, na, core.HexS(host), now)
}

// afterGet: questions about the leaf the real Config has just served for `host` (a listed spelling, possibly with
// port): other spellings of the same host, neighbours, and the edges of its window.
func afterGet(r *core.Rand, host string, p []string) []string {
	name, _ := classify(host)
	var ops []string
	for k := r.Range(1, 3); k > 0; k-- {
		switch r.Intn(5) {
		case 0:
			ops = append(ops, "vhl "+core.HexS(respell(r, p[r.Intn(len(p))])))
		case 1:
			ops = append(ops, fmt.Sprintf("vwl %s %d", r.Pick("nb", "na"), []int{-1000, -1, 0, 1, 1000}[r.Intn(5)]))
		default:
			ops = append(ops, "vhl "+core.HexS(respell(r, name)))
		}
	}
	return ops
}
