package c06

import (
	"crypto/ecdsa"
	"crypto/elliptic"
	"crypto/rand"
	"crypto/rsa"
	"crypto/x509"
	"crypto/x509/pkix"
	"fmt"
	"math/big"
	"net"
	"strconv"
	"strings"
	"sync"
	"time"

	"github.com/google/martian/v3/mitm"

	"verif/harness/internal/core"
)

// Ops that tie the model's concrete verifier (verifyHostname, verifyErr, inWindow) to Go's x509:
//
//	vh  <names> <ips> <host>                         VerifyHostname on a hand-made certificate with chosen SAN sets
//	vfy <names> <ips> ca|other <nb> <na> <host> <now> Verify(DNSName: host, Roots: CA, CurrentTime: base+now ms) on a
//	                                                  hand-made certificate valid from base+nb s to base+na s
//	vhl <host>                                       VerifyHostname of the leaf most recently served by the real mitm.Config
//	vwl nb|na <off>                                  Verify (no name) of that leaf at NotBefore+off / NotAfter+off ms
//
// <names>, <ips>: comma-separated hex (ips: 16 bytes each), "-" = none. The hand-made certificates are signed by the
// harness CA (or by a second, untrusted CA) and parsed back, so the SANs went through ASN.1 like the real ones.

var (
	hmOnce   sync.Once
	hmKey    *ecdsa.PrivateKey
	otherCA  *x509.Certificate
	otherKey *rsa.PrivateKey
	hmBase   time.Time
	hmMu     sync.Mutex
	hmCache  = map[string]*x509.Certificate{}
	hmSerial int64
)

func setupHandMade() {
	setupCA()
	hmOnce.Do(func() {
		var err error
		if hmKey, err = ecdsa.GenerateKey(elliptic.P256(), rand.Reader); err != nil {
			panic(err)
		}
		if otherCA, otherKey, err = mitm.NewAuthority("verif-c06-other", "Verif C06 Untrusted", 30*24*time.Hour); err != nil {
			panic(err)
		}
		hmBase = time.Now().Truncate(time.Second)
	})
}

func unhexList(s string) ([]string, bool) {
	if s == "-" {
		return nil, true
	}
	var out []string
	for _, h := range strings.Split(s, ",") {
		b, ok := core.Unhex(h)
		if !ok {
			return nil, false
		}
		out = append(out, string(b))
	}
	return out, true
}

// handMade returns a parsed certificate with exactly the given SANs; nil if x509 refuses to create or parse it.
func handMade(names, ips []string, nb, na time.Time, other bool) *x509.Certificate {
	setupHandMade()
	key := fmt.Sprintf("%q|%q|%d|%d|%v", names, ips, nb.Unix(), na.Unix(), other)
	hmMu.Lock()
	defer hmMu.Unlock()
	if c, ok := hmCache[key]; ok {
		return c
	}
	hmSerial++
	tmpl := &x509.Certificate{
		SerialNumber:          big.NewInt(hmSerial),
		Subject:               pkix.Name{CommonName: "verif-c06-handmade", Organization: []string{"verif"}},
		KeyUsage:              x509.KeyUsageDigitalSignature,
		ExtKeyUsage:           []x509.ExtKeyUsage{x509.ExtKeyUsageServerAuth},
		BasicConstraintsValid: true,
		NotBefore:             nb,
		NotAfter:              na,
		DNSNames:              names,
	}
	for _, ip := range ips {
		tmpl.IPAddresses = append(tmpl.IPAddresses, net.IP(ip))
	}
	parent, pkey := caCert, caKey
	if other {
		parent, pkey = otherCA, otherKey
	}
	var c *x509.Certificate
	if raw, err := x509.CreateCertificate(rand.Reader, tmpl, parent, hmKey.Public(), pkey); err == nil {
		c, _ = x509.ParseCertificate(raw)
	}
	if c != nil && (len(c.DNSNames) != len(names) || len(c.IPAddresses) != len(ips)) {
		c = nil
	}
	hmCache[key] = c
	return c
}

// ident gives the identity of a host string as the property reads it: an IP address (brackets optional) or an LDH
// DNS name up to letter case and one trailing dot; ok=false for anything else (no verdict from the oracle then).
func ident(h string) (string, bool) {
	if len(h) >= 3 && h[0] == '[' && h[len(h)-1] == ']' {
		if ip := net.ParseIP(h[1 : len(h)-1]); ip != nil {
			return "ip:" + string(ip.To16()), true
		}
		return "", false
	}
	if ip := net.ParseIP(h); ip != nil {
		return "ip:" + string(ip.To16()), true
	}
	n := strings.TrimSuffix(h, ".")
	if reLDH.MatchString(n) && !reAllNums.MatchString(n) && len(n) <= 200 {
		return "dns:" + strings.ToLower(n), true
	}
	return "", false
}

func (e *ex) remember(mode, fb, sni string, s served) {
	if s.err != nil || s.tlsc == nil || s.tlsc.Leaf == nil {
		return
	}
	e.last = s.tlsc.Leaf
	e.lastHost, _ = effective(mode, fb, sni)
}

func (e *ex) verifyOp(t []string) core.Result {
	bad := core.Result{Impl: "bad-op"}
	switch t[0] {
	case "vh":
		if len(t) != 4 {
			return bad
		}
		names, ok1 := unhexList(t[1])
		ips, ok2 := unhexList(t[2])
		hb, ok3 := core.Unhex(t[3])
		if !ok1 || !ok2 || !ok3 {
			return bad
		}
		setupHandMade()
		c := handMade(names, ips, hmBase.Add(-time.Hour), hmBase.Add(time.Hour), false)
		if c == nil {
			core.Count("vh:mkerr")
			return core.Result{Impl: "vh mkerr", SkipModel: true}
		}
		if err := c.VerifyHostname(string(hb)); err != nil {
			core.Count("vh:no")
			return core.Result{Impl: "vh no"}
		}
		core.Count("vh:ok")
		return core.Result{Impl: "vh ok"}
	case "vfy":
		if len(t) != 8 || (t[3] != "ca" && t[3] != "other") {
			return bad
		}
		names, ok1 := unhexList(t[1])
		ips, ok2 := unhexList(t[2])
		hb, ok3 := core.Unhex(t[6])
		nb, e1 := strconv.Atoi(t[4])
		na, e2 := strconv.Atoi(t[5])
		now, e3 := strconv.Atoi(t[7])
		if !ok1 || !ok2 || !ok3 || e1 != nil || e2 != nil || e3 != nil {
			return bad
		}
		setupHandMade()
		c := handMade(names, ips, hmBase.Add(time.Duration(nb)*time.Second), hmBase.Add(time.Duration(na)*time.Second), t[3] == "other")
		if c == nil {
			core.Count("vfy:mkerr")
			return core.Result{Impl: "vfy mkerr", SkipModel: true}
		}
		_, err := c.Verify(x509.VerifyOptions{DNSName: string(hb), Roots: caPool, CurrentTime: hmBase.Add(time.Duration(now) * time.Millisecond)})
		v := "ok"
		if err != nil {
			v = verr(err)
		}
		core.Count("vfy:" + v)
		return core.Result{Impl: "vfy " + v}
	case "vhl":
		if len(t) != 2 {
			return bad
		}
		hb, ok := core.Unhex(t[1])
		if !ok {
			return bad
		}
		if e.last == nil {
			return core.Result{Impl: "vhl none"}
		}
		other := string(hb)
		err := e.last.VerifyHostname(other)
		r := core.Result{Impl: "vhl ok"}
		if err != nil {
			r.Impl = "vhl no"
		}
		core.Count(r.Impl)
		// "valid for exactly that host": the leaf served for a listed host names every spelling of that host and
		// no other host.
		if name, class := classify(e.lastHost); class == "listed" {
			want, ok1 := ident(name)
			got, ok2 := ident(other)
			switch {
			case !ok1 || !ok2:
			case want == got && err != nil:
				r.Fail = fmt.Sprintf("leaf served for %q does not verify for the spelling %q of the same host: %v", e.lastHost, other, err)
				r.Sig = "c06:not-verified:hostname"
			case want != got && err == nil:
				r.Fail = fmt.Sprintf("leaf served for %q also verifies for the different host %q (DNSNames=%q IPs=%v)", e.lastHost, other, e.last.DNSNames, e.last.IPAddresses)
				r.Sig = "c06:names-other-host"
			}
		}
		return r
	case "vwl":
		if len(t) != 3 || (t[1] != "nb" && t[1] != "na") {
			return bad
		}
		off, err := strconv.Atoi(t[2])
		if err != nil {
			return bad
		}
		if e.last == nil {
			return core.Result{Impl: "vwl none"}
		}
		at := e.last.NotBefore
		if t[1] == "na" {
			at = e.last.NotAfter
		}
		_, verr0 := e.last.Verify(x509.VerifyOptions{Roots: e.ca().pool, CurrentTime: at.Add(time.Duration(off) * time.Millisecond)})
		v := "ok"
		if verr0 != nil {
			v = verr(verr0)
		}
		core.Count("vwl:" + v)
		return core.Result{Impl: "vwl " + v}
	}
	return bad
}
