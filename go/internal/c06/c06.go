// Package c06: forged certificates of mitm.Config (host normalisation, cache, re-verification,
// refusal of the empty host) against the Lean model Martian.Mitm, with an independent oracle that
// uses Go's real x509 verifier and real TLS handshakes.
package c06

import (
	"bytes"
	"crypto"
	"crypto/rsa"
	"crypto/tls"
	"crypto/x509"
	"fmt"
	"net"
	"regexp"
	"strconv"
	"strings"
	"sync"
	"time"

	"github.com/google/martian/v3/h2"
	"github.com/google/martian/v3/mitm"

	"verif/harness/internal/core"
)

type P struct{}

func init() { core.Register(P{}) }

func (P) ID() string { return "C06" }
func (P) Rule() string {
	return "case = one fresh mitm.Config (harness CA) driven by 8-30 ops: get/hs (GetCertificate directly or a real tls handshake over net.Pipe; " +
		"TLS() or TLSForHost(fallback); SNI present/absent) over a pool of hosts in every spelling (LDH names in mixed case, IPv4, bare IPv6, " +
		"[v6]:port, host:port, empty, :port, plus excluded/malformed spellings), SetValidity/SetOrganization, expire (sleep past the window of " +
		"2-second certificates), conc (16 concurrent requesters over 4 hosts), vhl/vwl (x509 VerifyHostname / Verify at the window edges of the " +
		"leaf just served, against other spellings of the same host and against neighbours); hosts are drawn half from tables, half from the " +
		"grammar of the class (random LDH names, IPv4, IPv6 incl. last group all digits / v4-mapped / compressed, random ports); or a batch of " +
		"vh/vfy ops (x509 on hand-made certificates with chosen SAN sets incl. wildcards, trailing dots, several entries x host spellings x " +
		"window edges x trusted/untrusted signer); or a batch of net.SplitHostPort / net.ParseIP strings from a " +
		"grammar; distinct by hash of the op list; non-trivial when the case shows at least two outcome kinds among fresh / cached / refused " +
		"(stdlib and verifier batches: both an accepted and a rejected input)"
}

func (P) Nontrivial(ops []string, impl []string) bool {
	kinds := map[string]bool{}
	for _, l := range impl {
		for _, k := range []string{" fresh ", " cached ", "refused", "shp ok", "shp err", "ip none", "vh ok", "vh no", "vfy ok", "vfy expired", "vfy hostname", "vfy authority"} {
			if strings.Contains(l, k) {
				kinds[k] = true
			}
		}
		if strings.HasPrefix(l, "ip ") && l != "ip none" {
			kinds["ip some"] = true
		}
	}
	return len(kinds) >= 2
}

// ---- harness CA and a pool of configs (one RSA key per config; generated in parallel) ----

const defaultOrg = "Martian Proxy"

type ex struct {
	mc        *mitm.Config
	org       string
	validity  time.Duration
	serialIdx map[string]int    // serial -> first-occurrence index
	orgAt     map[string]string // serial -> organisation configured when it was first seen
	leaves    []*x509.Certificate
	shortAt   time.Time // when the oldest unexpired short-lived certificate was handed out
	last      *x509.Certificate // leaf most recently served by get/hs (ops vhl, vwl)
	lastHost  string            // the host that request named (SNI or fallback)
	tainted   bool              // real time ran ahead of the model's clock: oracle only from here on
	auth      *authority        // the CA of this case (op `ca`, default RSA from NewAuthority)
	realtime  bool              // op `realtime`: get/hs/conc tell the model the wall clock of the call
	callT0    time.Time         // GetCertificate call of the last handshake
	callT1    time.Time
	signFail  bool // op `signfail on`: the CA signer fails; refusing a listed host is then legitimate
}

func (P) NewExec() core.Exec {
	return &ex{org: defaultOrg, validity: time.Hour, serialIdx: map[string]int{}, orgAt: map[string]string{}}
}
func (e *ex) Close() {}

func (e *ex) ca() *authority {
	if e.auth == nil {
		e.auth = getAuthority("rsa")
	}
	return e.auth
}

func (e *ex) cfg() *mitm.Config {
	if e.mc == nil {
		e.mc = <-e.ca().cfgs
	}
	return e.mc
}

func fail(sig, format string, a ...interface{}) core.Result {
	return core.Result{Fail: fmt.Sprintf(format, a...), Sig: sig}
}

// ---- the oracle's own reading of a host spelling (independent of the Lean model) ----

var (
	reV6Port  = regexp.MustCompile(`^\[([0-9A-Fa-f:.]*)\]:([0-9]{0,5})$`)
	reBrOnly  = regexp.MustCompile(`^\[[^\[\]]*\]$`)
	reLDH     = regexp.MustCompile(`^[A-Za-z0-9]([A-Za-z0-9-]*[A-Za-z0-9])?(\.[A-Za-z0-9]([A-Za-z0-9-]*[A-Za-z0-9])?)*$`)
	rePort    = regexp.MustCompile(`^[0-9]{0,5}$`)
	reAllNums = regexp.MustCompile(`^[0-9.]+$`)
)

// classify returns the host the client named (port and brackets removed) and the class of the
// spelling: "listed" (the property demands a certificate for name), "empty" (must be refused),
// "excluded" (bracketed IPv6 literal without port: outside the listed spellings), "other"
// (malformed or unlisted: only the generic checks apply).
func classify(h string) (name, class string) {
	name = h
	switch {
	case h == "":
		return "", "empty"
	case reV6Port.MatchString(h):
		name = reV6Port.FindStringSubmatch(h)[1]
		if name != "" && (net.ParseIP(name) == nil || !strings.Contains(name, ":")) {
			return name, "other"
		}
	case reBrOnly.MatchString(h):
		return h, "excluded"
	case strings.ContainsAny(h, "[]"):
		return h, "other"
	case strings.Count(h, ":") == 1:
		i := strings.IndexByte(h, ':')
		if !rePort.MatchString(h[i+1:]) {
			return h, "other"
		}
		name = h[:i]
	case strings.Count(h, ":") >= 2:
		if net.ParseIP(h) == nil {
			return h, "other"
		}
		return h, "listed"
	}
	if name == "" {
		return "", "empty"
	}
	if net.ParseIP(name) != nil {
		return name, "listed"
	}
	if reLDH.MatchString(name) && !reAllNums.MatchString(name) && len(name) <= 200 {
		return name, "listed"
	}
	return name, "other"
}

// effective host per the statement: SNI, else the CONNECT authority (TLSForHost only).
func effective(mode, fb, sni string) (string, bool) {
	if sni != "" {
		return sni, true
	}
	if mode == "host" {
		return fb, true
	}
	return "", false
}

type served struct {
	tlsc *tls.Certificate
	err  error
	t0   time.Time // before the call
	t1   time.Time // after the call
}

// check is the property oracle for one answer of GetCertificate.
func (e *ex) check(mode, fb, sni string, s served) core.Result {
	host, have := effective(mode, fb, sni)
	name, class := "", "empty"
	if have {
		name, class = classify(host)
	}
	core.Count("class:" + class)
	if s.err != nil || s.tlsc == nil {
		if class == "listed" && e.signFail {
			core.Count("refused:signer-down")
			return core.Result{}
		}
		if class == "listed" {
			return fail("c06:refused-listed-host", "host %q (names %q) was refused: %v", host, name, s.err)
		}
		return core.Result{}
	}
	leaf := s.tlsc.Leaf
	if leaf == nil {
		return fail("c06:no-leaf", "certificate for %q has no parsed leaf", host)
	}
	if class == "empty" {
		return fail("c06:empty-host-served", "no SNI and no fallback host (mode=%s fallback=%q) but a certificate was served (DNSNames=%q IPs=%v)", mode, fb, leaf.DNSNames, leaf.IPAddresses)
	}
	// generic: chain, organisation, key, exactly one SAN
	if len(s.tlsc.Certificate) < 1 || !bytes.Equal(s.tlsc.Certificate[0], leaf.Raw) {
		return fail("c06:chain-shape", "presented chain does not start with the leaf")
	}
	if err := leaf.CheckSignatureFrom(e.ca().cert); err != nil {
		return fail("c06:not-verified:authority", "leaf for %q is not signed by the configured CA: %v", host, err)
	}
	ser := leaf.SerialNumber.String()
	wantOrg, seen := e.orgAt[ser]
	if !seen {
		wantOrg = e.org
	}
	if len(leaf.Subject.Organization) != 1 || leaf.Subject.Organization[0] != wantOrg {
		return fail("c06:wrong-org", "leaf for %q carries organization %q, configured %q", host, leaf.Subject.Organization, wantOrg)
	}
	signer, ok := s.tlsc.PrivateKey.(crypto.Signer)
	if !ok {
		return fail("c06:key-mismatch", "no private key with the certificate for %q", host)
	}
	if pk, ok := leaf.PublicKey.(*rsa.PublicKey); !ok || !pk.Equal(signer.Public()) {
		return fail("c06:key-mismatch", "private key held does not match the leaf's public key (host %q)", host)
	}
	// "backed by a key the proxy holds so the handshake completes": crypto/tls must be willing to use the
	// certificate for every kind of client an RSA leaf can serve, not only for Go's own ClientHello
	// (which offers every scheme): TLS 1.2 clients with PKCS#1 v1.5 only / PSS only, and TLS 1.3 (PSS).
	for _, cp := range clientProfiles {
		hi := &tls.ClientHelloInfo{CipherSuites: cp.suites, SupportedVersions: cp.versions, SignatureSchemes: cp.schemes,
			SupportedCurves: []tls.CurveID{tls.X25519, tls.CurveP256}, SupportedPoints: []uint8{0}}
		if err := hi.SupportsCertificate(s.tlsc); err != nil {
			return fail("c06:unusable:"+cp.name, "crypto/tls refuses the certificate for %q for a %s client: %v", host, cp.name, err)
		}
		core.Count("profile:" + cp.name)
	}
	if len(leaf.DNSNames)+len(leaf.IPAddresses)+len(leaf.EmailAddresses)+len(leaf.URIs) != 1 {
		return fail("c06:extra-names", "leaf for %q carries DNSNames=%q IPs=%v (exactly one name expected)", host, leaf.DNSNames, leaf.IPAddresses)
	}
	if class != "listed" {
		return core.Result{}
	}
	// listed spelling: valid for exactly that host, now
	if ip := net.ParseIP(name); ip != nil {
		if len(leaf.IPAddresses) != 1 || !leaf.IPAddresses[0].Equal(ip) {
			return fail("c06:wrong-name", "host %q is the IP %s but the leaf carries DNSNames=%q IPs=%v", host, ip, leaf.DNSNames, leaf.IPAddresses)
		}
	} else if len(leaf.DNSNames) != 1 || !strings.EqualFold(leaf.DNSNames[0], name) {
		return fail("c06:wrong-name", "host %q names %q but the leaf carries DNSNames=%q IPs=%v", host, name, leaf.DNSNames, leaf.IPAddresses)
	}
	if e.validity >= time.Second {
		_, err0 := leaf.Verify(x509.VerifyOptions{DNSName: name, Roots: e.ca().pool, CurrentTime: s.t0})
		_, err1 := leaf.Verify(x509.VerifyOptions{DNSName: name, Roots: e.ca().pool, CurrentTime: s.t1})
		if err0 != nil && err1 != nil {
			return fail("c06:not-verified:"+verr(err1), "leaf for %q does not verify for %q at the time of the call: %v", host, name, err1)
		}
	}
	return core.Result{}
}

func verr(err error) string {
	switch x := err.(type) {
	case x509.CertificateInvalidError:
		if x.Reason == x509.Expired {
			return "expired"
		}
		return "invalid"
	case x509.HostnameError:
		return "hostname"
	case x509.UnknownAuthorityError:
		return "authority"
	}
	return "other"
}

// show renders the observation; alias maps a grouping key to an index for certificates issued
// concurrently within one op (nil outside conc).
func (e *ex) show(s served, base map[string]bool, alias map[string]int, group string) string {
	if s.err != nil || s.tlsc == nil || s.tlsc.Leaf == nil {
		return "refused"
	}
	leaf := s.tlsc.Leaf
	ser := leaf.SerialNumber.String()
	idx, seen := e.serialIdx[ser]
	if !seen {
		if a, ok := alias[group]; ok && alias != nil {
			idx = a
		} else {
			idx = e.nextIdx()
			if alias != nil {
				alias[group] = idx
			}
		}
		e.serialIdx[ser] = idx
		e.orgAt[ser] = e.org
		e.leaves = append(e.leaves, leaf)
		if leaf.NotAfter.Sub(time.Now()) < 3*time.Second && e.shortAt.IsZero() {
			e.shortAt = time.Now()
		}
	}
	fresh := "cached"
	if !base[ser] {
		fresh = "fresh"
	}
	san := "san:other"
	switch {
	case len(leaf.DNSNames) == 1 && len(leaf.IPAddresses) == 0:
		san = "dns:" + core.HexS(leaf.DNSNames[0])
	case len(leaf.DNSNames) == 0 && len(leaf.IPAddresses) == 1:
		san = "ip:" + core.Hex(leaf.IPAddresses[0].To16())
	}
	org := "?"
	if len(leaf.Subject.Organization) == 1 {
		org = core.HexS(leaf.Subject.Organization[0])
	}
	span := int64(leaf.NotAfter.Sub(leaf.NotBefore)/time.Second) / 2
	core.Count("served:" + fresh)
	return fmt.Sprintf("cert %d %s %s org:%s span:%d", idx, fresh, san, org, span)
}

func (e *ex) nextIdx() int {
	n := 0
	for _, v := range e.serialIdx {
		if v+1 > n {
			n = v + 1
		}
	}
	return n
}

func (e *ex) seenSet() map[string]bool {
	m := map[string]bool{}
	for k := range e.serialIdx {
		m[k] = true
	}
	return m
}

func (e *ex) tlsConfig(mode, fb string) *tls.Config {
	if mode == "tls" {
		return e.cfg().TLS()
	}
	return e.cfg().TLSForHost(fb)
}

// hazard: the model's clock advances 1 ms per op; the real one does whatever the machine allows. A 2-second leaf
// expires between 1 and 2 s after it was handed out, so an op that comes later than 900 ms after the first such
// leaf (and before the `expire` op) may see it expired while the model still reuses it. That is a property of the
// schedule, not of the code: from then on the case is judged by the oracle alone (SkipModel), never compared.
func (e *ex) hazard() {
	if !e.realtime && !e.shortAt.IsZero() && time.Since(e.shortAt) > 900*time.Millisecond && !e.tainted {
		core.Count("timing-hazard(op-later-than-900ms-after-short-cert):rest-of-case-oracle-only")
		e.tainted = true
	}
}

// rt: in a realtime case the model is told the wall clock (unix ms) read just before the call. Every clock read of
// the call (Verify, the two time.Now() of the template) lies in [t0, t1]; the outcome is a function of t0 alone when
// t0 and t1 fall into the same whole second S and t0 >= S.001 (certificate bounds are whole seconds). Otherwise the
// model cannot know which side of a second boundary the call saw: the rest of the case is oracle-only.
func (e *ex) rt(r *core.Result, op string, t0, t1 time.Time, rest string) {
	if !e.realtime || t0.IsZero() {
		return
	}
	ms := t0.UnixMilli()
	if t0.Unix() != t1.Unix() || ms%1000 == 0 {
		if !e.tainted {
			core.Count("realtime:call-straddles-a-second:rest-of-case-oracle-only")
		}
		e.tainted = true
		return
	}
	r.ModelOp = fmt.Sprintf("%s %d %s", op, ms, rest)
}

func (e *ex) Do(op string) core.Result {
	r := e.do(op)
	if e.tainted {
		r.SkipModel = true
	}
	return r
}

func (e *ex) do(op string) core.Result {
	t := strings.Fields(op)
	if len(t) == 0 {
		return core.Result{Impl: "bad-op"}
	}
	switch t[0] {
	case "validity":
		if len(t) != 2 {
			break
		}
		n, err := strconv.Atoi(t[1])
		if err != nil || n < 0 {
			break
		}
		e.validity = time.Duration(n) * time.Second
		e.cfg().SetValidity(e.validity)
		return core.Result{Impl: "ok"}
	case "org":
		if len(t) != 2 {
			break
		}
		b, ok := core.Unhex(t[1])
		if !ok {
			break
		}
		e.org = string(b)
		e.cfg().SetOrganization(e.org)
		return core.Result{Impl: "ok"}
	case "expire":
		// sleep until every handed-out short-lived leaf is past its window
		var until time.Time
		now := time.Now()
		for _, l := range e.leaves {
			if l.NotAfter.Sub(now) < 3*time.Second && l.NotAfter.After(until) {
				until = l.NotAfter
			}
		}
		if d := time.Until(until.Add(15 * time.Millisecond)); !until.IsZero() && d > 0 {
			core.Count("expire:slept")
			time.Sleep(d)
		}
		e.shortAt = time.Time{}
		return core.Result{Impl: "ok"}
	case "get", "hs":
		if len(t) != 4 || (t[1] != "tls" && t[1] != "host") {
			break
		}
		fbB, ok1 := core.Unhex(t[2])
		sniB, ok2 := core.Unhex(t[3])
		if !ok1 || !ok2 {
			break
		}
		e.hazard()
		fb, sni := string(fbB), string(sniB)
		base := e.seenSet()
		if t[0] == "get" {
			cfg := e.tlsConfig(t[1], fb)
			s := served{t0: time.Now()}
			s.tlsc, s.err = cfg.GetCertificate(&tls.ClientHelloInfo{ServerName: sni})
			s.t1 = time.Now()
			r := e.check(t[1], fb, sni, s)
			r.Impl = e.show(s, base, nil, "")
			e.remember(t[1], fb, sni, s)
			core.Count("op:get-" + t[1] + sniKind(sni))
			e.rt(&r, "getat", s.t0, s.t1, strings.Join(t[1:], " "))
			return r
		}
		e.callT0, e.callT1 = time.Time{}, time.Time{}
		r := e.handshake(t[1], fb, sni, base)
		e.rt(&r, "hsat", e.callT0, e.callT1, strings.Join(t[1:], " "))
		return r
	case "ca":
		if len(t) != 2 || e.mc != nil || e.auth != nil {
			break
		}
		a := getAuthority(t[1])
		if a == nil {
			break
		}
		e.auth = a
		core.Count("ca:" + t[1])
		return core.Result{Impl: "ok"}
	case "h2":
		if len(t) != 2 {
			break
		}
		if t[1] == "1" {
			e.cfg().SetH2Config(&h2.Config{AllowedHostsFilter: func(string) bool { return true }})
		} else {
			e.cfg().SetH2Config(nil)
		}
		return core.Result{Impl: "ok"}
	case "realtime":
		e.realtime = true
		return core.Result{Impl: "ok"}
	case "signfail":
		// fault injection at the signing step: the CA key's Sign fails from now on / works again
		if len(t) != 2 || (t[1] != "on" && t[1] != "off") {
			break
		}
		fs, ok := signers.Load(e.cfg())
		if !ok {
			break // only under `ca faulty|faultyec`
		}
		e.signFail = t[1] == "on"
		fs.(*faultySigner).fail.Store(e.signFail)
		core.Count("signfail:" + t[1])
		return core.Result{Impl: "ok"}
	case "sleep":
		if len(t) != 2 {
			break
		}
		n, err := strconv.Atoi(t[1])
		if err != nil || n < 0 || n > 5000 {
			break
		}
		time.Sleep(time.Duration(n) * time.Millisecond)
		return core.Result{Impl: "ok"}
	case "conc":
		if len(t) != 2 {
			break
		}
		var hosts []string
		if t[1] != "-" {
			for _, h := range strings.Split(t[1], ",") {
				b, ok := core.Unhex(h)
				if !ok {
					return core.Result{Impl: "bad-op"}
				}
				hosts = append(hosts, string(b))
			}
		}
		e.hazard()
		r := e.concurrent(hosts)
		e.rt(&r, "concat", e.callT0, e.callT1, t[1])
		return r
	case "vh", "vfy", "vhl", "vwl":
		return e.verifyOp(t)
	case "shp":
		if len(t) != 2 {
			break
		}
		b, ok := core.Unhex(t[1])
		if !ok {
			break
		}
		h, p, err := net.SplitHostPort(string(b))
		if err != nil {
			core.Count("shp:err")
			return core.Result{Impl: "shp err"}
		}
		core.Count("shp:ok")
		return core.Result{Impl: "shp ok " + core.HexS(h) + " " + core.HexS(p)}
	case "parseip":
		if len(t) != 2 {
			break
		}
		b, ok := core.Unhex(t[1])
		if !ok {
			break
		}
		ip := net.ParseIP(string(b))
		if ip == nil {
			core.Count("parseip:none")
			return core.Result{Impl: "ip none"}
		}
		core.Count("parseip:some")
		return core.Result{Impl: "ip " + core.Hex(ip.To16())}
	}
	return core.Result{Impl: "bad-op"}
}

var rsaSuites12 = []uint16{tls.TLS_ECDHE_RSA_WITH_AES_128_GCM_SHA256, tls.TLS_ECDHE_RSA_WITH_AES_256_GCM_SHA384}

// clientProfiles: the ClientHello shapes an RSA leaf has to serve (no ServerName: the name is checked separately).
var clientProfiles = []struct {
	name     string
	versions []uint16
	suites   []uint16
	schemes  []tls.SignatureScheme
}{
	{"tls12-pkcs1v15-only", []uint16{tls.VersionTLS12}, rsaSuites12, []tls.SignatureScheme{tls.PKCS1WithSHA256, tls.PKCS1WithSHA384, tls.PKCS1WithSHA512}},
	{"tls12-pss-only", []uint16{tls.VersionTLS12}, rsaSuites12, []tls.SignatureScheme{tls.PSSWithSHA256, tls.PSSWithSHA384, tls.PSSWithSHA512}},
	{"tls12-sha1-and-sha256", []uint16{tls.VersionTLS12}, rsaSuites12, []tls.SignatureScheme{tls.PKCS1WithSHA1, tls.PKCS1WithSHA256}},
	{"tls13", []uint16{tls.VersionTLS13}, []uint16{tls.TLS_AES_128_GCM_SHA256}, []tls.SignatureScheme{tls.PSSWithSHA256, tls.PSSWithSHA384, tls.PSSWithSHA512}},
}

func sniKind(sni string) string {
	if sni == "" {
		return "-nosni"
	}
	return "-sni"
}

// handshake runs a real TLS handshake over net.Pipe; the server side is the config under test with
// GetCertificate wrapped only to record what it was asked and what it answered.
func (e *ex) handshake(mode, fb, sni string, base map[string]bool) core.Result {
	cfg := e.tlsConfig(mode, fb)
	orig := cfg.GetCertificate
	var rec served
	var sawSNI string
	called := false
	cfg.GetCertificate = func(hi *tls.ClientHelloInfo) (*tls.Certificate, error) {
		called = true
		sawSNI = hi.ServerName
		rec.t0 = time.Now()
		rec.tlsc, rec.err = orig(hi)
		rec.t1 = time.Now()
		e.callT0, e.callT1 = rec.t0, rec.t1
		return rec.tlsc, rec.err
	}
	cc, sc := net.Pipe()
	defer cc.Close()
	defer sc.Close()
	dl := time.Now().Add(8 * time.Second)
	cc.SetDeadline(dl)
	sc.SetDeadline(dl)
	srvErr := make(chan error, 1)
	go func() {
		s := tls.Server(sc, cfg)
		err := s.Handshake()
		if err != nil {
			sc.Close()
		}
		srvErr <- err
	}()
	client := tls.Client(cc, &tls.Config{ServerName: sni, InsecureSkipVerify: true})
	cerr := client.Handshake()
	if cerr != nil {
		cc.Close()
	}
	var serr error
	select {
	case serr = <-srvErr:
	case <-time.After(9 * time.Second):
		return core.Result{Impl: "hs hang", Fail: "server handshake did not return", Sig: "hang"}
	}
	core.Count("op:hs-" + mode + sniKind(sni))
	if !called {
		return core.Result{Impl: "hs no-call", Fail: fmt.Sprintf("GetCertificate was not called (client err %v, server err %v)", cerr, serr), Sig: "c06:harness"}
	}
	if sawSNI != sni {
		return core.Result{Impl: "hs sni-mismatch", Fail: fmt.Sprintf("harness: server saw SNI %q, op says %q", sawSNI, sni), Sig: "c06:harness"}
	}
	r := e.check(mode, fb, sni, rec)
	r.Impl = "hs " + e.show(rec, base, nil, "")
	e.remember(mode, fb, sni, rec)
	if r.Fail != "" {
		return r
	}
	if rec.err != nil || rec.tlsc == nil {
		if cerr == nil || serr == nil {
			return core.Result{Impl: r.Impl, Fail: "certificate refused but the handshake completed", Sig: "c06:refused-but-completed"}
		}
		core.Count("hs:refused")
		return r
	}
	if cerr != nil || serr != nil {
		return core.Result{Impl: r.Impl, Fail: fmt.Sprintf("handshake did not complete with the served certificate: client=%v server=%v", cerr, serr), Sig: "c06:handshake-failed"}
	}
	st := client.ConnectionState()
	if len(st.PeerCertificates) == 0 || !st.PeerCertificates[0].Equal(rec.tlsc.Leaf) {
		return core.Result{Impl: r.Impl, Fail: "client received a different leaf than GetCertificate returned", Sig: "c06:handshake-leaf"}
	}
	// the chain as presented on the wire verifies at the client for the name it asked for
	host, _ := effective(mode, fb, sni)
	if name, class := classify(host); class == "listed" && e.validity >= time.Second {
		inter := x509.NewCertPool()
		for _, c := range st.PeerCertificates[1:] {
			inter.AddCert(c)
		}
		// at the start or at the end of the GetCertificate call (the documented residual window: one call)
		_, err := st.PeerCertificates[0].Verify(x509.VerifyOptions{DNSName: name, Roots: e.ca().pool, Intermediates: inter, CurrentTime: rec.t0})
		if err != nil {
			_, err = st.PeerCertificates[0].Verify(x509.VerifyOptions{DNSName: name, Roots: e.ca().pool, Intermediates: inter, CurrentTime: rec.t1})
		}
		if err != nil {
			return core.Result{Impl: r.Impl, Fail: fmt.Sprintf("chain received by the client does not verify for %q: %v", name, err), Sig: "c06:not-verified:" + verr(err)}
		}
	}
	core.Count("hs:completed")
	return r
}

// concurrent: every host of the list is requested by its own goroutine at the same time.
func (e *ex) concurrent(hosts []string) core.Result {
	mc := e.cfg()
	base := e.seenSet()
	res := make([]served, len(hosts))
	start := make(chan struct{})
	var wg sync.WaitGroup
	for i, h := range hosts {
		wg.Add(1)
		go func(i int, h string) {
			defer wg.Done()
			cfg := mc.TLSForHost(h)
			<-start
			s := served{t0: time.Now()}
			s.tlsc, s.err = cfg.GetCertificate(&tls.ClientHelloInfo{})
			s.t1 = time.Now()
			res[i] = s
		}(i, h)
	}
	e.callT0, e.callT1 = time.Now(), time.Time{}
	close(start)
	done := make(chan struct{})
	go func() { wg.Wait(); close(done) }()
	select {
	case <-done:
	case <-time.After(20 * time.Second):
		return core.Result{Impl: "conc hang", Fail: "concurrent requesters did not return", Sig: "hang"}
	}
	core.Count("op:conc")
	e.callT1 = time.Now()
	alias := map[string]int{}
	var out []string
	var first core.Result
	for i, h := range hosts {
		r := e.check("host", h, "", res[i])
		if r.Fail != "" && first.Fail == "" {
			first = r
		}
		// "never receive a certificate issued for a different name": compare with the requester's own host
		name, class := classify(h)
		if first.Fail == "" && class == "listed" && res[i].tlsc != nil && res[i].tlsc.Leaf != nil {
			l := res[i].tlsc.Leaf
			okName := false
			if ip := net.ParseIP(name); ip != nil {
				okName = len(l.IPAddresses) == 1 && l.IPAddresses[0].Equal(ip)
			} else {
				okName = len(l.DNSNames) == 1 && strings.EqualFold(l.DNSNames[0], name)
			}
			if !okName {
				first = fail("c06:cross-host", "concurrent requester %d for %q received DNSNames=%q IPs=%v", i, h, l.DNSNames, l.IPAddresses)
			}
		}
		out = append(out, e.show(res[i], base, alias, name))
	}
	first.Impl = "conc " + strings.Join(out, ";")
	return first
}
