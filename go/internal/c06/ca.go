package c06

import (
	"crypto"
	"crypto/ecdsa"
	"crypto/ed25519"
	"crypto/elliptic"
	"crypto/rand"
	"crypto/rsa"
	"crypto/sha1"
	"crypto/x509"
	"crypto/x509/pkix"
	"errors"
	"io"
	"math/big"
	"sync"
	"sync/atomic"
	"time"

	"github.com/google/martian/v3/mitm"
)

// The configuration space of mitm.Config that matters to C06: NewConfig takes ANY CA certificate and private key
// (`privateKey interface{}`), not only what NewAuthority makes. Every case runs under one authority of a chosen
// kind; the oracle verifies against THAT authority.
//
//	rsa      mitm.NewAuthority (RSA 2048)            — the default
//	rsa3072  hand-made CA, RSA 3072
//	p256     hand-made CA, ECDSA P-256
//	p384     hand-made CA, ECDSA P-384
//	ed25519  hand-made CA, Ed25519
//	faulty   hand-made CA, RSA 2048 behind a crypto.Signer (HSM/KMS style) whose Sign fails while the case's
//	         `signfail on` is in force; every Config gets its own signer so cases do not disturb each other
//	faultyec the same over ECDSA P-256
type authority struct {
	kind string
	cert *x509.Certificate
	key  crypto.Signer
	pool *x509.CertPool
	cfgs chan *mitm.Config
}

// The names the configuration itself carries: the authority's organisation and its own name (CN and DNS SAN, as
// mitm.NewAuthority builds it). Clients may name exactly these (a proxy's own admin host is typically the CA's name).
const caOrg = "Verif C06 Authority"

func caName(kind string) string {
	if kind == "rsa" {
		return "verif-c06-ca"
	}
	return "verif-c06-ca-" + kind
}

var caKinds = []string{"rsa", "rsa3072", "p256", "p384", "ed25519", "faulty", "faultyec"}

// faultySigner is a crypto.Signer that is not one of the stdlib key types and can be made to fail.
type faultySigner struct {
	inner crypto.Signer
	fail  atomic.Bool
	calls atomic.Int64
}

func (f *faultySigner) Public() crypto.PublicKey { return f.inner.Public() }
func (f *faultySigner) Sign(rnd io.Reader, digest []byte, opts crypto.SignerOpts) ([]byte, error) {
	f.calls.Add(1)
	if f.fail.Load() {
		return nil, errors.New("verif: signer unavailable")
	}
	return f.inner.Sign(rnd, digest, opts)
}

var signers sync.Map // *mitm.Config -> *faultySigner

var (
	authMu sync.Mutex
	auths  = map[string]*authority{}
)

func newCA(kind string) (*x509.Certificate, crypto.Signer) {
	const validity = 30 * 24 * time.Hour
	if kind == "rsa" {
		c, k, err := mitm.NewAuthority(caName(kind), caOrg, validity)
		if err != nil {
			panic(err)
		}
		return c, k
	}
	var key crypto.Signer
	var err error
	switch kind {
	case "rsa3072":
		key, err = rsa.GenerateKey(rand.Reader, 3072)
	case "faulty":
		key, err = rsa.GenerateKey(rand.Reader, 2048)
	case "faultyec":
		key, err = ecdsa.GenerateKey(elliptic.P256(), rand.Reader)
	case "p256":
		key, err = ecdsa.GenerateKey(elliptic.P256(), rand.Reader)
	case "p384":
		key, err = ecdsa.GenerateKey(elliptic.P384(), rand.Reader)
	case "ed25519":
		_, key, err = ed25519.GenerateKey(rand.Reader)
	default:
		return nil, nil
	}
	if err != nil {
		panic(err)
	}
	pkixpub, err := x509.MarshalPKIXPublicKey(key.Public())
	if err != nil {
		panic(err)
	}
	id := sha1.Sum(pkixpub)
	serial, _ := rand.Int(rand.Reader, mitm.MaxSerialNumber)
	tmpl := &x509.Certificate{
		SerialNumber:          serial,
		Subject:               pkix.Name{CommonName: caName(kind), Organization: []string{caOrg}},
		DNSNames:              []string{caName(kind)}, // like NewAuthority: the CA names itself
		SubjectKeyId:          id[:],
		KeyUsage:              x509.KeyUsageDigitalSignature | x509.KeyUsageCertSign,
		ExtKeyUsage:           []x509.ExtKeyUsage{x509.ExtKeyUsageServerAuth},
		BasicConstraintsValid: true,
		IsCA:                  true,
		NotBefore:             time.Now().Add(-validity),
		NotAfter:              time.Now().Add(validity),
	}
	raw, err := x509.CreateCertificate(rand.Reader, tmpl, tmpl, key.Public(), key)
	if err != nil {
		panic(err)
	}
	c, err := x509.ParseCertificate(raw)
	if err != nil {
		panic(err)
	}
	return c, key
}

// getAuthority creates the authority of that kind on first use and keeps a small stock of ready Configs (NewConfig
// generates an RSA key each time: slow) filled by background workers that block when the stock is full.
func getAuthority(kind string) *authority {
	authMu.Lock()
	defer authMu.Unlock()
	if a, ok := auths[kind]; ok {
		return a
	}
	cert, key := newCA(kind)
	if cert == nil {
		return nil
	}
	workers, stock := 1, 2
	if kind == "rsa" {
		workers, stock = 6, 6
	}
	a := &authority{kind: kind, cert: cert, key: key, pool: x509.NewCertPool(), cfgs: make(chan *mitm.Config, stock)}
	a.pool.AddCert(cert)
	for i := 0; i < workers; i++ {
		go func() {
			for {
				var key interface{} = a.key
				var fs *faultySigner
				if kind == "faulty" || kind == "faultyec" {
					fs = &faultySigner{inner: a.key}
					key = fs
				}
				c, err := mitm.NewConfig(a.cert, key)
				if err != nil {
					panic(err)
				}
				if fs != nil {
					signers.Store(c, fs)
				}
				a.cfgs <- c
			}
		}()
	}
	auths[kind] = a
	return a
}

// the RSA authority doubles as the signer of the hand-made certificates of vh/vfy
var (
	caCert *x509.Certificate
	caKey  *rsa.PrivateKey
	caPool *x509.CertPool
	caOnce sync.Once
)

func setupCA() {
	caOnce.Do(func() {
		a := getAuthority("rsa")
		caCert, caKey, caPool = a.cert, a.key.(*rsa.PrivateKey), a.pool
	})
}

var _ = big.NewInt
