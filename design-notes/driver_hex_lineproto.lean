def hexVal (c : Char) : Option Nat :=
  if '0' ≤ c ∧ c ≤ '9' then some (c.toNat - '0'.toNat)
  else if 'a' ≤ c ∧ c ≤ 'f' then some (c.toNat - 'a'.toNat + 10)
  else none

def unhex (s : String) : Option (List UInt8) :=
  let rec go : List Char → List UInt8 → Option (List UInt8)
    | [], acc => some acc.reverse
    | [_], _ => none
    | a :: b :: rest, acc => do
      let x ← hexVal a
      let y ← hexVal b
      go rest (UInt8.ofNat (x * 16 + y) :: acc)
  go s.toList []

def hexDigit (n : Nat) : Char := if n < 10 then Char.ofNat (48 + n) else Char.ofNat (87 + n)
def hex (bs : List UInt8) : String :=
  String.ofList (bs.flatMap fun b => [hexDigit (b.toNat / 16), hexDigit (b.toNat % 16)])

def step (acc : Nat) (line : String) : Nat × String :=
  match (line.trimAscii.toString.splitOn " ") with
  | ["push", h] => match unhex h with
    | some bs => (acc + bs.length, s!"ok {hex bs.reverse}")
    | none => (acc, "bad-op")
  | ["sum"] => (acc, toString acc)
  | _ => (acc, "bad-op")
