import subprocess,sys,os,re,json
V='/var/tmp/v3-C14'
P=[V+'/repo-patches/C14-fix-1-stack-aggregates-errors.patch',V+'/repo-patches/C14-fix-2-framing-before-hop-by-hop.patch']
def rep(path,old,new,count=1):
    def f(wt):
        p=os.path.join(wt,path); s=open(p).read()
        assert old in s,(path,old)
        open(p,'w').write(s.replace(old,new,count))
    return f
M={
 'I1-no-aggregation':[rep('httpspec/httpspec.go','\touter.SetAggregateErrors(true)\n','')],
 'I2-framing-after-forwarded':[rep('httpspec/httpspec.go','\touter.AddRequestModifier(header.NewBadFramingModifier())\n\n\thbhm','\thbhm'),
      rep('httpspec/httpspec.go','\touter.AddRequestModifier(header.NewForwardedModifier())\n','\touter.AddRequestModifier(header.NewForwardedModifier())\n\touter.AddRequestModifier(header.NewBadFramingModifier())\n')],
 'M1-via-get':[rep('header/via_modifier.go','strings.Join(req.Header["Via"], ", ")','req.Header.Get("Via")')],
 'M2-xff-get':[rep('header/forwarded_modifier.go','strings.Join(req.Header["X-Forwarded-For"], ", ")','req.Header.Get("X-Forwarded-For")'),rep('header/forwarded_modifier.go','\t"strings"\n','')],
 'M3-upgrade-dropped':[rep('header/hopbyhop_modifier.go','\t"Upgrade",\n','')],
 'M4-no-trimspace':[rep('header/hopbyhop_modifier.go','http.CanonicalHeaderKey(strings.TrimSpace(v))','http.CanonicalHeaderKey(v)')],
 'M5-response-no-hbh':[rep('httpspec/httpspec.go','\touter.AddResponseModifier(hbhm)\n','')],
 'M6-cl-no-comma-split':[rep('header/framing_modifier.go','strings.Split(ls, ",")','[]string{ls}')],
 'M7-loop-parts0':[rep('header/via_modifier.go','== parts[1]','== parts[0]')],
 'M8-proto-overwritten':[rep('header/forwarded_modifier.go','if v := req.Header.Get("X-Forwarded-Proto"); v == "" {','if true {')],
 'M9-via-prepended':[rep('header/via_modifier.go','via = fmt.Sprintf("%s, %s", v, via)','via = fmt.Sprintf("%s, %s", via, v)')],
 'M11-loop-no-skip':[rep('header/via_modifier.go','\t\t\tctx.SkipRoundTrip()\n','')],
 'N2-proxy-connection-options':[rep('header/hopbyhop_modifier.go','for _, vs := range header["Connection"] {','for _, vs := range append(append([]string{}, header["Connection"]...), header["Proxy-Connection"]...) {')],
 'N3-hbh-case-insensitive-keys':[rep('header/hopbyhop_modifier.go','\tfor _, k := range hopByHopHeaders {\n\t\theader.Del(k)\n\t}','\tfor _, k := range hopByHopHeaders {\n\t\tfor hk := range header {\n\t\t\tif strings.EqualFold(hk, k) {\n\t\t\t\tdelete(header, hk)\n\t\t\t}\n\t\t}\n\t}')],
 'N5-via-proto-string':[rep('header/via_modifier.go','fmt.Sprintf("%d.%d %s-%s", req.ProtoMajor, req.ProtoMinor, m.requestedBy, m.boundary)','fmt.Sprintf("%s %s-%s", req.Proto, m.requestedBy, m.boundary)')],
 'N7-te-chunked-keeps-cl':[rep('header/framing_modifier.go','\t\t\t\treq.Header.Del("Content-Length")\n','')],
 'N8-response-via-before-inner':[rep('httpspec/httpspec.go','\touter.AddResponseModifier(inner)\n\n\touter.AddResponseModifier(vm)\n','\touter.AddResponseModifier(vm)\n\touter.AddResponseModifier(inner)\n')],
 'H1-refactor-renames':[rep('httpspec/httpspec.go','(outer *fifo.Group, inner *fifo.Group)','(stack *fifo.Group, inner *fifo.Group)'),
      rep('httpspec/httpspec.go','outer','stack',100), rep('httpspec/httpspec.go','hbhm','hop',100),
      rep('header/hopbyhop_modifier.go','\tfor _, k := range hopByHopHeaders {\n\t\theader.Del(k)\n\t}','\tfor i := 0; i < len(hopByHopHeaders); i++ {\n\t\theader.Del(hopByHopHeaders[i])\n\t}'),
      rep('header/via_modifier.go','\t\tif fmt.Sprintf("%s-%s", m.requestedBy, m.boundary) == parts[1] {','\t\tme := m.requestedBy + "-" + m.boundary\n\t\tif me == parts[1] {')],
 'H2-refactor-statement-order':[rep('httpspec/httpspec.go','\tvm := header.NewViaModifier(via)\n\touter.AddRequestModifier(vm)\n','\touter.AddRequestModifier(vm)\n'),
      rep('httpspec/httpspec.go','\touter = fifo.NewGroup()\n','\touter = fifo.NewGroup()\n\tvm := header.NewViaModifier(via)\n')],
}
want=sys.argv[1:] or list(M)
env=dict(os.environ,GOFLAGS='-mod=mod',GOPROXY='off',GOSUMDB='off',GOTOOLCHAIN='local')
for name in want:
    wt='/var/tmp/r-C14-mut'
    subprocess.run(['git','-C','/repo','worktree','remove','--force',wt],capture_output=True)
    subprocess.run(['git','-C','/repo','worktree','add','--detach',wt,'HEAD'],capture_output=True,check=True)
    for p in P: subprocess.run(['git','apply',p],cwd=wt,check=True)
    for f in M[name]: f(wt)
    b=subprocess.run(['go','build','./...'],cwd=wt,env=env,capture_output=True,text=True)
    if b.returncode: print(name,'DOES NOT BUILD',b.stderr[-300:]); continue
    r=subprocess.run(['./check','C14','quick'],cwd=V,env=dict(env,VERIF_REPO=wt),capture_output=True,text=True)
    out=r.stdout+r.stderr
    nv=len(re.findall(r'^VIOLATION',out,re.M)); nfi=out.count('no-failing-input-found')
    sigs=sorted(set(re.findall(r'oracle (c14:[\w-]+)',out)))
    div='divergence' in out
    proof=re.findall(r'lake build Martian.Props.C14 failed: ([^\n]{0,160})',out)
    pass
    print(f"{name}: exit={r.returncode} violations={nv} nfi={nfi} sigs={sigs} divergence={div} proof_broken={proof[:1]}",flush=True)
    subprocess.run(['git','-C','/repo','worktree','remove','--force',wt],capture_output=True)
