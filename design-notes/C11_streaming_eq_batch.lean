/-! Calibration prototype: C11 gRPC length-prefixed reassembly, streaming = batch. -/

abbrev Bytes := List UInt8

structure Msg where
  compressed : Bool
  payload : Bytes
deriving Repr, DecidableEq

inductive PSt where
  | hdr (buf : Bytes)
  | body (compressed : Bool) (len : Nat) (buf : Bytes)
deriving Repr, DecidableEq

def be32 (b : Bytes) : Nat :=
  (b.getD 0 0).toNat * 16777216 + (b.getD 1 0).toNat * 65536 + (b.getD 2 0).toNat * 256 + (b.getD 3 0).toNat

def PSt.measure : PSt → Nat
  | .hdr buf => 2 * buf.length
  | .body _ _ buf => 2 * buf.length + 1

/-- the `for { switch a.state … }` loop of adapter.Data (repaired variant: no early return
    between a prefix and a zero-length payload). -/
def drain (st : PSt) : PSt × List Msg :=
  match st with
  | .hdr buf =>
    if h : buf.length < 5 then (st, [])
    else drain (.body (buf.getD 0 0 > 0) (be32 (buf.drop 1)) (buf.drop 5))
  | .body c len buf =>
    if h : buf.length < len then (st, [])
    else
      let r := drain (.hdr (buf.drop len))
      (r.1, ⟨c, buf.take len⟩ :: r.2)
termination_by st.measure
decreasing_by
  all_goals simp only [PSt.measure, List.length_drop]
  all_goals omega

def app (st : PSt) (d : Bytes) : PSt :=
  match st with
  | .hdr buf => .hdr (buf ++ d)
  | .body c len buf => .body c len (buf ++ d)

/-- one DATA frame -/
def feed (st : PSt) (d : Bytes) : PSt × List Msg := drain (app st d)

theorem drain_hdr_lt (buf : Bytes) (h : buf.length < 5) : drain (.hdr buf) = (.hdr buf, []) := by
  conv => lhs; rw [drain]
  simp [h]
theorem drain_hdr_ge (buf : Bytes) (h : 5 ≤ buf.length) :
    drain (.hdr buf) = drain (.body (buf.getD 0 0 > 0) (be32 (buf.drop 1)) (buf.drop 5)) := by
  conv => lhs; rw [drain]
  simp [Nat.not_lt.mpr h]
theorem drain_body_lt (c : Bool) (len : Nat) (buf : Bytes) (h : buf.length < len) :
    drain (.body c len buf) = (.body c len buf, []) := by
  conv => lhs; rw [drain]
  simp [h]
theorem drain_body_ge (c : Bool) (len : Nat) (buf : Bytes) (h : len ≤ buf.length) :
    drain (.body c len buf) =
      ((drain (.hdr (buf.drop len))).1, ⟨c, buf.take len⟩ :: (drain (.hdr (buf.drop len))).2) := by
  conv => lhs; rw [drain]
  simp [Nat.not_lt.mpr h]

theorem be32_append (xs b : Bytes) (h : 4 ≤ xs.length) : be32 (xs ++ b) = be32 xs := by
  match xs, h with
  | a :: b' :: c :: d :: _, _ => simp [be32]

theorem drain_app (st : PSt) (b : Bytes) :
    drain (app st b) = ((drain (app (drain st).1 b)).1, (drain st).2 ++ (drain (app (drain st).1 b)).2) := by
  fun_induction drain st with
  | case1 buf h => simp
  | case2 buf h ih =>
    have h5 : 5 ≤ buf.length := Nat.le_of_not_lt h
    rw [← ih]
    simp only [app]
    rw [drain_hdr_ge (buf ++ b) (by simp; omega)]
    have e0 : (buf ++ b).getD 0 0 = buf.getD 0 0 := by
      cases buf with
      | nil => simp at h5
      | cons x xs => simp
    have e1 : be32 ((buf ++ b).drop 1) = be32 (buf.drop 1) := by
      rw [List.drop_append_of_le_length (by omega)]
      exact be32_append _ _ (by simp; omega)
    rw [e0, e1, List.drop_append_of_le_length h5]
  | case3 c len buf h => simp
  | case4 c len buf h r ih =>
    have hl : len ≤ buf.length := Nat.le_of_not_lt h
    simp only [app]
    rw [drain_body_ge c len (buf ++ b) (by simp; omega)]
    rw [List.drop_append_of_le_length hl, List.take_append_of_le_length hl]
    have ih' := ih
    simp only [app] at ih'
    rw [ih']
    simp [r, app]

/-- streaming = batch: feeding `a` then `b` equals feeding `a ++ b`. -/
theorem feed_append (st : PSt) (a b : Bytes) :
    feed st (a ++ b) = ((feed (feed st a).1 b).1, (feed st a).2 ++ (feed (feed st a).1 b).2) := by
  unfold feed
  have : app st (a ++ b) = app (app st a) b := by cases st <;> simp [app]
  rw [this, drain_app]
