/-! Calibration: priority.Group insertion order. -/

/-- AddRequestModifier: insert before the first element whose priority is ≤ the new one. -/
def ins (x : Int × Nat) : List (Int × Nat) → List (Int × Nat)
  | [] => [x]
  | m :: ms => if x.1 ≥ m.1 then x :: m :: ms else m :: ins x ms

def insertAll (xs : List (Int × Nat)) : List (Int × Nat) := xs.foldl (fun acc x => ins x acc) []

/-- non-increasing priorities -/
def SortedDesc : List (Int × Nat) → Prop
  | [] => True
  | [_] => True
  | a :: b :: l => a.1 ≥ b.1 ∧ SortedDesc (b :: l)

theorem sortedDesc_tail {a : Int × Nat} {l : List (Int × Nat)} (h : SortedDesc (a :: l)) : SortedDesc l := by
  cases l with
  | nil => trivial
  | cons b l => exact h.2

theorem ins_sorted (x : Int × Nat) (l : List (Int × Nat)) (h : SortedDesc l) : SortedDesc (ins x l) := by
  induction l with
  | nil => trivial
  | cons m ms ih =>
    unfold ins
    split
    · exact ⟨by assumption, h⟩
    · rename_i hlt
      have ih' := ih (sortedDesc_tail h)
      cases ms with
      | nil => simp only [ins]; exact ⟨by omega, trivial⟩
      | cons b l =>
        simp only [ins] at ih' ⊢
        split
        · rename_i hge; simp only [hge, if_true] at ih'; exact ⟨by omega, ih'⟩
        · rename_i hlt2; simp only [hlt2, if_false] at ih'; exact ⟨h.1, ih'⟩

theorem insertAll_sorted (xs : List (Int × Nat)) : SortedDesc (insertAll xs) := by
  unfold insertAll
  suffices ∀ acc, SortedDesc acc → SortedDesc (xs.foldl (fun acc x => ins x acc) acc) from this [] trivial
  induction xs with
  | nil => intro acc h; exact h
  | cons x xs ih => intro acc h; exact ih _ (ins_sorted x acc h)

/-- the new element goes in front of every element of equal priority (later-listed first among equals) -/
theorem ins_before_equals (x : Int × Nat) (l : List (Int × Nat)) :
    ∃ pre suf, ins x l = pre ++ x :: suf ∧ l = pre ++ suf ∧ (∀ m ∈ pre, m.1 > x.1) := by
  induction l with
  | nil => exact ⟨[], [], rfl, rfl, by simp⟩
  | cons m ms ih =>
    unfold ins
    split
    · exact ⟨[], m :: ms, rfl, rfl, by simp⟩
    · rename_i hlt
      obtain ⟨pre, suf, h1, h2, h3⟩ := ih
      refine ⟨m :: pre, suf, by simp [h1], by simp [h2], ?_⟩
      intro y hy
      rcases List.mem_cons.mp hy with rfl | hy
      · omega
      · exact h3 y hy

example : insertAll [(0, 1), (5, 2), (0, 3), (5, 4), (9, 5)] = [(9, 5), (5, 4), (5, 2), (0, 3), (0, 1)] := by decide
