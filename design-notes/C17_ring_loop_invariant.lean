/-! Calibration prototype: HAR log ring, heap level. -/

def upd (f : Nat → Nat) (a v : Nat) : Nat → Nat := fun x => if x = a then v else f x

@[simp] theorem upd_same (f : Nat → Nat) (a v : Nat) : upd f a v a = v := by simp [upd]
theorem upd_other (f : Nat → Nat) (a v x : Nat) (h : x ≠ a) : upd f a v x = f x := by simp [upd, h]

/-- `Chain nx a l b`: following `nx` from `a` visits exactly `l` and the last element's successor is... 
    we use: nx a = l[0], nx l[i] = l[i+1]; (nothing said about last). -/
def Chain (nx : Nat → Nat) : Nat → List Nat → Prop
  | _, [] => True
  | a, b :: l => nx a = b ∧ Chain nx b l

/-- loop state of ExportAndReset -/
structure LS where
  curr : Nat
  prev : Nat
  first : Option Nat
  es : List Nat
  nx : Nat → Nat

/-- one iteration body (after `curr = curr.next`) -/
def body (done : Nat → Bool) (s : LS) : LS :=
  let c := s.nx s.curr
  if done c then { s with curr := c, es := s.es ++ [c] }
  else { curr := c, prev := c, first := (match s.first with | some f => some f | none => some c),
         es := s.es, nx := upd s.nx s.prev c }

def loop (done : Nat → Bool) (tail : Nat) : Nat → LS → LS
  | 0, s => s
  | fuel+1, s =>
    let s' := body done s
    if s'.curr = tail then s' else loop done tail fuel s'

/-- abstract effect: run over the remaining list q -/
def absRun (done : Nat → Bool) : List Nat → (Nat × Option Nat × List Nat × List Nat) → (Nat × Option Nat × List Nat × List Nat)
  | [], st => st
  | c :: q, (prev, first, es, kept) =>
    if done c then absRun done q (prev, first, es ++ [c], kept)
    else absRun done q (c, (match first with | some f => some f | none => some c), es, kept ++ [c])

theorem absRun_es (done : Nat → Bool) (q : List Nat) (prev : Nat) (first : Option Nat) (es kept : List Nat) :
    (absRun done q (prev, first, es, kept)).2.2.1 = es ++ q.filter (fun c => done c) := by
  induction q generalizing prev first es kept with
  | nil => simp [absRun]
  | cons c q ih =>
    by_cases h : done c
    · simp [absRun, h, ih, List.filter_cons]
    · simp [absRun, h, ih, List.filter_cons]

theorem absRun_kept (done : Nat → Bool) (q : List Nat) (prev : Nat) (first : Option Nat) (es kept : List Nat) :
    (absRun done q (prev, first, es, kept)).2.2.2 = kept ++ q.filter (fun c => !done c) := by
  induction q generalizing prev first es kept with
  | nil => simp [absRun]
  | cons c q ih =>
    by_cases h : done c
    · simp [absRun, h, ih, List.filter_cons]
    · simp [absRun, h, ih, List.filter_cons]

/-! ### Heap-level loop invariant -/

def pend (done : Nat → Bool) (p : List Nat) : List Nat := p.filter (fun c => !done c)

def lastOr (a : Nat) (l : List Nat) : Nat := (l.getLast?).getD a
@[simp] theorem lastOr_nil (a : Nat) : lastOr a [] = a := rfl
@[simp] theorem lastOr_snoc (a : Nat) (l : List Nat) (c : Nat) : lastOr a (l ++ [c]) = c := by
  simp [lastOr]
theorem lastOr_cons (a b : Nat) (l : List Nat) : lastOr a (b :: l) = lastOr b l := by
  simp [lastOr, List.getLast?_cons]
theorem lastOr_mem (a : Nat) (l : List Nat) (h : l ≠ []) : lastOr a l ∈ l := by
  unfold lastOr
  cases hl : l.getLast? with
  | none => simp_all
  | some x => simpa using List.mem_of_getLast? hl

/-- `Link nx a k`: nx a = k[0], nx k[i] = k[i+1]. -/
def Link (nx : Nat → Nat) : Nat → List Nat → Prop
  | _, [] => True
  | a, b :: k => nx a = b ∧ Link nx b k

theorem Link_snoc (nx : Nat → Nat) (a : Nat) (k : List Nat) (c : Nat) :
    Link nx a (k ++ [c]) ↔ Link nx a k ∧ nx (lastOr a k) = c := by
  induction k generalizing a with
  | nil => simp [Link]
  | cons b k ih => simp only [List.cons_append, Link, ih b, and_assoc, lastOr_cons]

/-- Link only depends on nx at `a` and at all but the last element of k. -/
theorem Link_congr (nx nx' : Nat → Nat) (a : Nat) (k : List Nat)
    (h : ∀ x, (x = a ∨ x ∈ k) → x ≠ lastOr a k → nx' x = nx x) (hnd : (a :: k).Nodup) :
    Link nx a k → Link nx' a k := by
  induction k generalizing a with
  | nil => simp [Link]
  | cons b k ih =>
    intro ⟨h1, h2⟩
    have hnd' : (b :: k).Nodup := (List.nodup_cons.mp hnd).2
    have hab : a ∉ b :: k := (List.nodup_cons.mp hnd).1
    refine ⟨?_, ih b ?_ hnd' h2⟩
    · rw [h a (Or.inl rfl) ?_]; exact h1
      intro he
      rw [lastOr_cons] at he
      by_cases hk : k = []
      · subst hk; simp at he; simp [he] at hab
      · have := lastOr_mem b k hk; rw [← he] at this; exact hab (List.mem_cons_of_mem _ this)
    · intro x hx hne
      apply h x
      · rcases hx with rfl | hx
        · right; simp
        · right; exact List.mem_cons_of_mem _ hx
      · rw [lastOr_cons]; exact hne

structure RInv (done : Nat → Bool) (orig : Nat → Nat) (tail : Nat) (p : List Nat) (s : LS) : Prop where
  curr : s.curr = lastOr tail p
  prev : s.prev = lastOr tail (pend done p)
  first : s.first = (pend done p).head?
  es : s.es = p.filter (fun c => done c)
  link : Link s.nx tail (pend done p)
  frame : ∀ x, x ≠ tail → x ∉ pend done p → s.nx x = orig x
  last : tail ∉ p → s.nx s.prev = orig s.prev

theorem pend_snoc (done : Nat → Bool) (p : List Nat) (c : Nat) :
    pend done (p ++ [c]) = if done c then pend done p else pend done p ++ [c] := by
  by_cases h : done c <;> simp [pend, List.filter_append, h]

theorem mem_pend {done : Nat → Bool} {p : List Nat} {x : Nat} : x ∈ pend done p → x ∈ p := by
  simp only [pend, List.mem_filter]; exact fun h => h.1

theorem RInv_init (done : Nat → Bool) (orig : Nat → Nat) (tail : Nat) :
    RInv done orig tail [] { curr := tail, prev := tail, first := none, es := [], nx := orig } := by
  constructor <;> simp [pend, Link]

theorem pend_nodup {done : Nat → Bool} {p : List Nat} (h : p.Nodup) : (pend done p).Nodup :=
  List.Nodup.sublist List.filter_sublist h

theorem RInv_step (done : Nat → Bool) (orig : Nat → Nat) (tail : Nat) (p : List Nat) (c : Nat) (s : LS)
    (hinv : RInv done orig tail p s) (hnext : orig (lastOr tail p) = c)
    (htp : tail ∉ p) (hcp : c ∉ p) (hnd : p.Nodup) :
    RInv done orig tail (p ++ [c]) (body done s) := by
  -- the read of `s.nx s.curr` sees the original pointer
  have hread : s.nx s.curr = c := by
    rw [← hnext, hinv.curr]
    rcases List.eq_nil_or_concat p with rfl | ⟨p', d, hp⟩
    · have := hinv.last htp
      rw [hinv.prev] at this
      simpa [pend] using this
    · rw [List.concat_eq_append] at hp; subst hp
      simp only [lastOr_snoc]
      have hd_ne : d ≠ tail := by
        intro h; apply htp; simp [h]
      by_cases hd : done d
      · apply hinv.frame d hd_ne
        rw [pend_snoc]; simp only [hd, if_true]
        intro hm
        have hdp : d ∈ p' := mem_pend hm
        have := List.nodup_append.mp hnd
        exact this.2.2 d hdp d (by simp) rfl
      · have hl := hinv.last htp
        rw [hinv.prev, pend_snoc] at hl
        simpa [hd] using hl
  have hck : c ∉ pend done p := fun h => hcp (mem_pend h)
  have htk : tail ∉ pend done p := fun h => htp (mem_pend h)
  have hprev_ne : ∀ x, x ≠ tail → x ∉ pend done p → x ≠ s.prev := by
    intro x hx hxp he
    rw [hinv.prev] at he
    by_cases hk : pend done p = []
    · rw [hk] at he; simp at he; exact hx he
    · exact hxp (he ▸ lastOr_mem tail _ hk)
  unfold body
  simp only [hread]
  by_cases hc : done c
  · simp only [hc, if_true]
    constructor
    · simp
    · simp [pend_snoc, hc, hinv.prev]
    · simp [pend_snoc, hc, hinv.first]
    · simp [List.filter_append, hc, hinv.es]
    · simpa [pend_snoc, hc] using hinv.link
    · intro x hx hxp; apply hinv.frame x hx; simpa [pend_snoc, hc] using hxp
    · intro ht; exact hinv.last (fun h => ht (by simp [h]))
  · simp only [hc, Bool.false_eq_true, if_false]
    constructor
    · simp
    · simp [pend_snoc, hc]
    · simp only [pend_snoc, hc, Bool.false_eq_true, if_false, hinv.first]
      cases hk : pend done p <;> simp
    · simp [List.filter_append, hc, hinv.es]
    · -- link extended by the write prev.next := c
      simp only [pend_snoc, hc, Bool.false_eq_true, if_false]
      rw [Link_snoc]
      refine ⟨?_, ?_⟩
      · apply Link_congr s.nx _ tail (pend done p) _ _ hinv.link
        · intro x _ hne
          apply upd_other
          rw [hinv.prev]; exact hne
        · exact List.nodup_cons.mpr ⟨htk, pend_nodup hnd⟩
      · rw [← hinv.prev]; simp
    · intro x hx hxp
      simp only [pend_snoc, hc, Bool.false_eq_true, if_false, List.mem_append, List.mem_singleton, not_or] at hxp
      show upd s.nx s.prev c x = orig x
      rw [upd_other _ _ _ _ (hprev_ne x hx hxp.1)]
      exact hinv.frame x hx hxp.1
    · intro ht
      -- new prev = c, whose pointer was never written
      show upd s.nx s.prev c c = orig c
      have hct : c ≠ tail := fun h => ht (by simp [h])
      rw [upd_other _ _ _ _ (hprev_ne c hct hck)]
      exact hinv.frame c hct hck
