/-! Calibration prototype: C09 flow-control ledger, any map-iteration order. -/

structure Frame where
  sid : Nat
  size : Nat
deriving Repr, DecidableEq

structure Strm where
  win : Int
  q : List Frame

def fits (conn : Int) (w : Int) (f : Frame) : Bool := decide ((f.size : Int) ≤ conn) && decide ((f.size : Int) ≤ w)

/-- emitEligibleFrames: pop the longest prefix that fits both windows. -/
def emit : Int → Int → List Frame → Int × Int × List Frame × List Frame
  | conn, w, [] => (conn, w, [], [])
  | conn, w, f :: q =>
    if fits conn w f then
      let r := emit (conn - f.size) (w - f.size) q
      (r.1, r.2.1, r.2.2.1, f :: r.2.2.2)
    else (conn, w, f :: q, [])

def total (l : List Frame) : Int := (l.map (fun f => (f.size : Int))).sum

def Stuck (conn w : Int) (q : List Frame) : Prop := q = [] ∨ ∃ f q', q = f :: q' ∧ fits conn w f = false

theorem emit_spec (conn w : Int) (q : List Frame) :
    let r := emit conn w q
    r.2.2.2 ++ r.2.2.1 = q ∧ r.1 = conn - total r.2.2.2 ∧ r.2.1 = w - total r.2.2.2 ∧
    Stuck r.1 r.2.1 r.2.2.1 ∧ (0 ≤ conn → 0 ≤ r.1) ∧ (0 ≤ w → 0 ≤ r.2.1) := by
  induction q generalizing conn w with
  | nil => simp [emit, total, Stuck]
  | cons f q ih =>
    by_cases h : fits conn w f
    · have := ih (conn - f.size) (w - f.size)
      simp only [emit, h, if_true]
      obtain ⟨h1, h2, h3, h4, h5, h6⟩ := this
      simp only [fits, Bool.and_eq_true, decide_eq_true_eq] at h
      refine ⟨by simp [h1], ?_, ?_, h4, ?_, ?_⟩
      · simp [total] at *; omega
      · simp [total] at *; omega
      · intro hc; apply h5; omega
      · intro hw; apply h6; omega
    · simp only [emit, h]
      simp [total, Stuck, h]

theorem stuck_mono {conn conn' w : Int} {q : List Frame} (h : conn' ≤ conn) : Stuck conn w q → Stuck conn' w q := by
  rintro (h1 | ⟨f, q', rfl, hf⟩)
  · exact Or.inl h1
  · refine Or.inr ⟨f, q', rfl, ?_⟩
    simp only [fits, Bool.and_eq_false_iff, decide_eq_false_iff_not] at *
    omega
