#!/usr/bin/env python3
"""Collect confirmed seeded defects from /tmp/seedout-<ID>/<X>/ into /verif/seeded/<ID>-<X>/ (patch.diff, demonstration,
meta.json with what it needs to manifest, what was run and what the check reported)."""
import glob, json, os, shutil, sys
V = os.path.dirname(os.path.dirname(os.path.abspath(__file__)))
rows = []
for d in sorted(glob.glob('/tmp/seedout-C*/[AB]')):
    pid = d.split('/')[2].replace('seedout-', '')
    x = os.path.basename(d)
    if not os.path.exists(d + '/patch.diff') or not os.path.exists(d + '/meta.json'):
        continue
    try:
        meta = json.load(open(d + '/meta.json'))
    except Exception as e:
        print('bad meta', d, e); continue
    vr = {}
    if os.path.exists(d + '/verif_result.json'):
        vr = json.load(open(d + '/verif_result.json'))
    out = f'{V}/seeded/{pid}-{x}'
    os.makedirs(out, exist_ok=True)
    for f in os.listdir(d):
        if f in ('check.log', 'verif_result.json'):
            continue
        src = os.path.join(d, f)
        if os.path.isfile(src):
            shutil.copy(src, os.path.join(out, f))
    confirmed = vr.get('demo_without_change_exit') == 0 and vr.get('demo_with_change_exit') not in (0, None)
    meta_out = {
        'property': pid,
        'title': meta.get('title'),
        'breaks': meta.get('what_it_breaks'),
        'needs_to_manifest': meta.get('needs_to_manifest'),
        'files_touched': meta.get('files_touched'),
        'demo_cmd': meta.get('demo_cmd'),
        'author': 'independent sub-agent given only the property text and a scratch worktree of /repo',
        'confirmed_by': f'tools/seedcheck.sh {pid} seeded/{pid}-{x}  (scratch worktree of /repo HEAD: patch applies, go build ./..., '
                        'existing tests of the touched packages (+ root and h2 when touched) pass, demonstration passes without and fails with the patch, '
                        f'then VERIF_REPO=<worktree> ./check {pid} quick)',
        'demo_passes_without_change': vr.get('demo_without_change_exit') == 0,
        'demo_fails_with_change': vr.get('demo_with_change_exit') not in (0, None),
        'check_exit': vr.get('check_exit'),
        'check_reports_violation': bool(vr.get('violation_lines')),
        'concrete_replay': bool(vr.get('concrete_replay')),
        'check_detail': vr.get('detail', [])[:2],
    }
    json.dump(meta_out, open(out + '/meta.json', 'w'), indent=1)
    rows.append((pid, x, confirmed, meta_out['check_reports_violation'], meta_out['concrete_replay'], (meta.get('title') or '')[:90]))
for r in rows:
    print(*r, sep=' | ')
