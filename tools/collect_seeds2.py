#!/usr/bin/env python3
"""tools/collect_seeds2.py [--verif <tree>] [--tier quick] <ID>-<X> ...
Round-2 collector: copies /tmp/seedout9-<ID>/<X>/ (patch.diff, zz_seed_*_test.go, meta.json written by an independent
agent) to seeded/<ID>-<X>/, confirms it with tools/seedcheck.sh run from <tree> (default: this tree) and records the
outcome in meta.json. With an existing seeded/<ID>-<X>/ and no /tmp source it only re-runs the confirmation."""
import json, os, shutil, subprocess, sys
V = os.path.dirname(os.path.dirname(os.path.abspath(__file__)))
args = sys.argv[1:]
tree, tier = V, "quick"
while args and args[0].startswith("--"):
    if args[0] == "--verif": tree = args[1]; args = args[2:]
    elif args[0] == "--tier": tier = args[1]; args = args[2:]
for name in args:
    pid, x = name.split("-")
    src = f"/tmp/seedout9-{pid}/{x}"
    out = f"{V}/seeded/{name}"
    if os.path.exists(src + "/patch.diff") and not os.path.exists(out + "/patch.diff"):
        os.makedirs(out, exist_ok=True)
        for f in os.listdir(src):
            if os.path.isfile(os.path.join(src, f)):
                shutil.copy(os.path.join(src, f), os.path.join(out, f))
    if not os.path.exists(out + "/meta.json"):
        print(name, "no such seed"); continue
    meta = json.load(open(out + "/meta.json"))
    p = subprocess.run([tree + "/tools/seedcheck.sh", pid, out, tier], stdout=subprocess.PIPE, stderr=subprocess.STDOUT, text=True)
    kv = dict(l.split("=", 1) for l in p.stdout.splitlines() if "=" in l and not l.startswith(("VIOLATION", "KNOWN", "check ", " ")))
    vr = json.load(open(out + "/verif_result.json")) if os.path.exists(out + "/verif_result.json") else {}
    sigs = []
    try:
        log = open(out + "/check.log").read()
        import re
        sigs = re.findall(r"^  (?:oracle|panic|hang|crash)?\s*([a-z0-9:_.\-]+):", log, flags=re.M)[:3]
    except OSError:
        pass
    meta.update({
        "property": pid,
        "author": "independent sub-agent given only the property text and a scratch worktree of /repo",
        "confirmed_by": f"tools/seedcheck.sh {pid} seeded/{name} {tier} (scratch worktree of /repo HEAD: patch applies, go build ./..., existing tests of the "
                        "touched packages (+ root and h2 when touched) pass, demonstration passes without and fails with the patch, then VERIF_REPO=<worktree> ./check)",
        "patch_applies": kv.get("patch_applies") == "yes", "builds": kv.get("builds") == "yes",
        "existing_tests": kv.get("existing_tests"),
        "demo_passes_without_change": vr.get("demo_without_change_exit") == 0,
        "demo_fails_with_change": vr.get("demo_with_change_exit") not in (0, None),
        "check_exit": vr.get("check_exit"),
        "check_reports_violation": bool(vr.get("violation_lines")),
        "concrete_replay": bool(vr.get("concrete_replay")),
        "check_detail": vr.get("detail", [])[:2],
    })
    json.dump(meta, open(out + "/meta.json", "w"), indent=1)
    for f in ("check.log", "verif_result.json"):
        try: os.remove(os.path.join(out, f))
        except OSError: pass
    verdict = "MISSED" if not meta["check_reports_violation"] else ("CAUGHT" if meta["concrete_replay"] else "CAUGHT-nfif")
    ok = meta["patch_applies"] and meta["builds"] and meta["existing_tests"] == "pass" and meta["demo_passes_without_change"] and meta["demo_fails_with_change"]
    print(name, "confirmed" if ok else f"NOT-CONFIRMED({kv})", verdict, (meta.get("check_detail") or [""])[0][:160], flush=True)
