#!/usr/bin/env python3
"""Validates MANIFEST.json and every evidence file of this /verif tree against the schemas (run with python3-vt)."""
import json, glob, os
import jsonschema
V = os.path.dirname(os.path.dirname(os.path.abspath(__file__)))
jsonschema.validate(json.load(open(V + '/MANIFEST.json')), json.load(open('/root/.vp/MANIFEST.schema.json')))
es = json.load(open('/root/.vp/EVIDENCE.schema.json'))
for f in sorted(glob.glob(V + '/evidence/*.json')):
    jsonschema.validate(json.load(open(f)), es)
    print('ok', f)
print('valid')
