#!/bin/bash
# tools/selftest.sh [ID...]: mutation self-test. Runs every seeded defect under seeded/ (or only those of the
# given properties) through tools/seedcheck.sh and prints one line per defect. Not a registered check: it is how
# "which checks catch which changes" (DESIGN.md §9) is re-established. Takes 1-3 min per defect (scratch
# worktrees of /repo under /var/tmp, removed afterwards). Run it in a /verif tree nobody else is using.
cd "$(dirname "$0")/.."
want="$*"
for d in seeded/*/; do
  n=$(basename "$d"); id=${n%%-*}
  if [ -n "$want" ] && ! echo " $want " | grep -q " $id "; then continue; fi
  tmp=/var/tmp/selftest-$n-$$; rm -rf "$tmp"; cp -r "$d" "$tmp"
  out=$(tools/seedcheck.sh "$id" "$tmp" 2>&1)
  ce=$(echo "$out" | sed -n 's/^check_exit=//p'); dw=$(echo "$out" | sed -n 's/^demo_with_change_exit=//p'); d0=$(echo "$out" | sed -n 's/^demo_without_change_exit=//p')
  nfi=$(echo "$out" | grep -c "no-failing-input-found"); v=$(echo "$out" | grep -c "^VIOLATION")
  verdict=MISSED; [ "$v" -gt 0 ] && verdict=CAUGHT; [ "$v" -gt 0 ] && [ "$nfi" -eq "$v" ] && verdict=CAUGHT-no-failing-input
  echo "$n demo(without/with)=$d0/$dw check_exit=$ce $verdict"
  rm -rf "$tmp"
done
