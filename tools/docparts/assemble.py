#!/usr/bin/env python3
"""Assemble DESIGN.md (next to tools/) from the parts in this directory; section 9 table from tools/mkseedtable.py."""
import subprocess, re, sys, os, json, glob
import os
P = os.path.dirname(os.path.abspath(__file__)) + '/'
rd = lambda n: open(P + n).read()
out = subprocess.run(['python3', '/verif/tools/mkseedtable.py'], cwd='/verif', stdout=subprocess.PIPE, text=True).stdout
lines = [l for l in out.splitlines() if l.startswith('|') or l.startswith('Totals:')]
table = '\n'.join(l for l in lines if l.startswith('|'))
totals = [l for l in lines if l.startswith('Totals:')][0]
rows = [l for l in lines if l.startswith('| C')]
names = [r.split('|')[1].strip() for r in rows]
letters = sorted(set(n.split('-')[1] for n in names))
n = len(rows)
bad = [(r.split('|')[1].strip(), 'nfif' if '**nfif**' in r else 'missed') for r in rows if '**replay**' not in r]
ef = [x for x in names if x.split('-')[1] in ('E', 'F')]
efnote = ''
if ef:
    uncommitted = subprocess.run(['git', '-C', '/verif', 'status', '--short', 'seeded'], stdout=subprocess.PIPE, text=True).stdout.strip()
    efnote = (f", `E|F` = third round (seeded against the tree *after* the round-3 deepening; {len(ef)} collected at the time of\nwriting" +
              (", collection still in progress" if uncommitted else "") + ")")
reb = sorted(os.path.basename(os.path.dirname(f)) for f in glob.glob('/verif/seeded/*/meta.json') if json.load(open(f)).get('rebased'))
rebnote = (f"{len(reb)} patches were re-based after a `fix:` commit touched their lines (`meta.json` `\"rebased\"`: " + ', '.join(reb) + "; same change).") if reb else ''
pre = rd('D_pre.md').replace('@@REBASED@@', rebnote)
_h, _b = pre.split('\n\n', 1)
pre = _h + '\n\n' + '\n'.join(__import__('textwrap').wrap(' '.join(_b.split()), 99, break_on_hyphens=False)) + '\n\n'
tot = totals.replace('Totals:', f'Totals after the final re-run ({n} seeds, letters {"–".join([letters[0], letters[-1]])}):')
tot = '\n'.join(__import__('textwrap').wrap(tot, 99))
def short(s, k):
    s = ' '.join((s or '').split())
    return s if len(s) <= k else s[:k - 1].rsplit(' ', 1)[0] + ' …'
ad = [x for x in names if x.split('-')[1] in 'ABCD']
ad_bad = [a for a, b in bad if a.split('-')[1] in 'ABCD']
if bad:
    items = []
    for a, b in bad:
        m = json.load(open(f'/verif/seeded/{a}/meta.json'))
        items.append('\n'.join(__import__('textwrap').wrap(
            f"* {a} ({b}) — {short(m.get('title'), 120)}. Needs: {short(m.get('needs_to_manifest'), 150)}",
            99, subsequent_indent='  ')))
    head = ("**Still not caught with a concrete input** (from the table above; `missed` = `./check` exits 0 on the "
            "seeded tree, `nfif` = the check fails through a divergence or a broken fact without a replayable failing "
            "input). " + f"All other {n - len(bad)} seeds, of every round, are caught with a replay. " +
            ("The exceptions are seeds of the last round (Q/R), most of which had no follow-up: they are the measured residue. " if all(x.split('-')[1] in 'QR' for x, _ in bad) else "") +
            "The rows below are the work list:")
    still = '\n'.join(__import__('textwrap').wrap(head, 99)) + '\n\n' + '\n'.join(items)
else:
    still = "**Still not caught:** none — every row of the table is reported with a concrete replay."
post = rd('D_post.md').replace('@@TOTALS@@', tot).replace('@@STILL@@', still)
doc = rd('A.md') + rd('B1.md') + rd('B2.md') + rd('B3.md') + rd('B4.md') + rd('C.md') + pre + table + '\n\n' + post + rd('E.md')
COST = {
 'C01': ('', 'not recorded', '≈3400 reader + 600 writer ops + 120 e2e cases; long histories (1100 + 2100 exchanges) in the corpus'),
 'C02': ('', 'not recorded', 'one 66 000-exchange burst per run (≈3 s)'),
 'C03': ('', 'not recorded', '≈5500 prefix ops'),
 'C04': ('21–27 s, before the 12 s pause case', '182 s (2556 cases, round 3)', 'quiescence = no byte moved for 2 s; one idle-for-12-s case per run; a tree on which tunnels fail costs the bound several times per case'),
 'C05': ('', 'not recorded', ''),
 'C06': ('12–16 s in round 3', '104 s (3951 cases, 96 279 ops, round 3)', '2-second certificates slept past their window; a 2.5 s polling case; signer-fault cases'),
 'C07': ('32–41 s', '225 s (11 541 cases)', '≈15 s of quick are the stalled-client scenarios; a tree with a hanging handler: ≈3 min'),
 'C08': ('4.5–6 s', '47 s', ''),
 'C09': ('14–18 s', '122 s', 'driver handles 70 000-byte payloads as lists'),
 'C10': ('35–41 s at load 35', '≈5 min (3874 cases, round 3)', 'a tree on which every case fails: minutes'),
 'C11': ('22–30 s in round 3', 'not recorded since round 2 (≈150 s)', ''),
 'C12': ('8–16 s', '176–208 s (83 043 cases, 981 090 ops, 400 races)', ''),
 'C13': ('', 'not recorded', 'race tier needs cgo; malformed-input cases answer out-of-model'),
 'C14': ('2–4 s harness', '57 s (42 627 cases)', ''),
 'C15': ('6–7 s in round 3', '132 s (round 3)', '16 MiB + 1 bodies in quick'),
 'C16': ('12–16 s', '190 s', ''),
 'C17': ('20–23 s', '5.6–6.8 min (8.3 M evaluations, round 3)', 'Lean heap model is O(N²): 2.3 s for a 4096-entry log'),
 'C18': ('11–20 s in round 3', '168 s (4073 cases, round 3); was 1260 s before the harness reaped leaked global buckets', 'real 10 ms buckets for the throttle lower bound (≈0.3 s per case)'),
 'C19': ('20–23 s', '≈3.8 min (round 2 figure)', 'two corpus reads announce 4 GiB (own time budget, section 7 i); one stalled-writer case (≈1 s)'),
 'C20': ('', 'not recorded', ''),
}
def num(x):
    s = str(x); return s if len(s) < 5 else f"{x:,}".replace(',', ' ')
crow = []; allq = True; seen = set(); viol = 0
for pid in sorted(COST):
    e = json.loads(subprocess.run(['git', '-C', '/verif', 'show', f'HEAD:evidence/{pid}.json'], stdout=subprocess.PIPE, text=True).stdout)
    c = e['coverage']; b, th, rm = COST[pid]
    allq &= e['tier'] == 'quick'; viol += e['violations'] + len(c['broken_obligations']); seen |= set(c['known_findings_seen'])
    oom = f" ({c['out_of_model']} out-of-model)" if c.get('out_of_model', 0) >= 100 else ''
    crow.append(f"| {pid} | {round(e['wall_s'])} s" + (f" ({b})" if b else '') + f" | {num(c['cases'])} / {num(c['evaluations'])}{oom} | {th} | {rm} |")
kf = json.load(open('/verif/known_findings.json'))['findings']
nopen = len({(f['property'], f['sig']) for f in kf if f['status'] == 'open'})
costnote = (f"All 20 committed evidence files record {'quick' if allq else 'quick or thorough'} runs with {viol} violations and broken obligations; "
            f"`known_findings_seen` lists {len(seen)} of the {nopen} open signatures of section 5" +
            (" (all of them)" if len(seen) == nopen else "") + ". No thorough-tier evidence is committed (the thorough figures are the builders').")
costnote = '\n'.join(__import__('textwrap').wrap(costnote, 99, break_on_hyphens=False))
doc = doc.replace('@@COST@@', '\n'.join(crow)).replace('@@COSTNOTE@@', costnote)
print('open', nopen, 'seen', len(seen))
doc = doc.replace('@@NSEEDS@@', str(n))
open(os.path.join(P, '..', '..', 'DESIGN.md'), 'w').write(doc)
print(n, totals, bad, len(doc.splitlines()))
