#!/bin/bash
# tools/merge_branch.sh <branch>: merge a per-property work branch into main.
# MANIFEST.json is regenerated; known_findings.json is the union of both sides' entries.
set -e
cd "$(dirname "$0")/.."
b=$1
git merge --no-commit --no-ff "$b" >/dev/null 2>&1 || true
python3 - "$b" <<'PY'
import json, subprocess, sys
b = sys.argv[1]
ours = json.loads(subprocess.check_output(["git", "show", "HEAD:known_findings.json"]))
theirs = json.loads(subprocess.check_output(["git", "show", b + ":known_findings.json"]))
seen = {(f["property"], f.get("sig", ""), f.get("what", "")) for f in ours["findings"]}
for f in theirs["findings"]:
    k = (f["property"], f.get("sig", ""), f.get("what", ""))
    if k not in seen:
        ours["findings"].append(f); seen.add(k)
# an entry that one side has repaired (status fixed, same property and sig) must not come back as open from the other side
fixed = {(f["property"], f.get("sig", "")) for f in ours["findings"] if f["status"] == "fixed" and f.get("sig")}
ours["findings"] = [f for f in ours["findings"] if not (f["status"] == "open" and (f["property"], f.get("sig", "")) in fixed)]
json.dump(ours, open("known_findings.json", "w"), indent=1)
PY
python3 tools/mkmanifest.py
git add known_findings.json MANIFEST.json
left=$(git diff --name-only --diff-filter=U)
if [ -n "$left" ]; then echo "UNRESOLVED: $left"; exit 1; fi
git commit -qm "merge $b"
echo "merged $b"
