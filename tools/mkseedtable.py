#!/usr/bin/env python3
"""tools/mkseedtable.py: prints the DESIGN.md §9 table (markdown) from seeded/*/meta.json."""
import glob, json, os
V = os.path.dirname(os.path.dirname(os.path.abspath(__file__)))
rows = []
tot = {"replay": 0, "nfif": 0, "missed": 0}
for f in sorted(glob.glob(V + "/seeded/*/meta.json")):
    m = json.load(open(f)); name = os.path.basename(os.path.dirname(f))
    if not m.get("check_reports_violation"): v = "missed"
    elif m.get("concrete_replay"): v = "replay"
    else: v = "nfif"
    tot[v] += 1
    det = (m.get("check_detail") or [""])[0]
    sig = ""
    import re
    mm = re.search(r"(?:oracle|panic|hang|crash|diverge)\s+([A-Za-z0-9:_.\-]+):", det)
    if mm: sig = " `" + mm.group(1) + "`"
    def cell(s): return (s or "").replace("|", "\\|").replace("\n", " ")
    title = cell(m.get("title"))
    needs = cell(m.get("needs_to_manifest"))
    if len(needs) > 230: needs = needs[:227] + "…"
    if len(title) > 150: title = title[:147] + "…"
    rows.append(f"| {name} | {', '.join(m.get('files_touched') or [])}: {title} | {needs} | **{v}**{sig} |")
print("| id | change | needs, to manifest | verdict (first sig) |")
print("|----|--------|--------------------|---------------------|")
print("\n".join(rows))
print(f"\nTotals: {tot['replay']} caught with a concrete replay, {tot['nfif']} reported as no-failing-input-found only, {tot['missed']} missed, of {len(rows)}.")
