#!/usr/bin/env python3
"""Regenerates /verif/MANIFEST.json from the table below (single source of truth for what is claimed)."""
import json, os
V = os.path.dirname(os.path.dirname(os.path.abspath(__file__)))
BASE = "for m in $(cat /w/out/gomods.txt); do MF=$(cd /repo/$m && . /w/out/goenv.sh && gomodflag); (cd /repo/$m && go test $MF -json -vet=off -count=1 -timeout 25m ./...); done"

import glob
CLAIMED = {}
for f in sorted(glob.glob(os.path.join(V, "manifest.d", "*.json"))):
    j = json.load(open(f))
    CLAIMED[j["property_id"]] = j
NOT_APPLICABLE = {}  # pid -> reason, for properties deliberately not claimed

ALL = ["C%02d" % i for i in range(1, 21)]

def main():
    checks = []
    for pid in ALL:
        if pid not in CLAIMED:
            continue
        c = CLAIMED[pid]
        checks.append({
            "property_id": pid,
            "quick_cmd": f"./check {pid} quick",
            "thorough_cmd": f"./check {pid} thorough",
            "evidence_file": f"/verif/evidence/{pid}.json",
            "replay_cmd_template": f"./check {pid} --replay {{path}}",
            "engine": "lean4-model+go-correspondence",
            "level_claimed": {"category": "proof", "text": c["text"], "design_ref": c["design"]},
            "level_note": c["note"],
            "technique": c["technique"],
        })
    na = [{"property_id": pid, "reason": NOT_APPLICABLE.get(pid, "check not built yet (model and harness planned in DESIGN.md §3); not claimed until its check exists")}
          for pid in ALL if pid not in CLAIMED]
    m = {
        "version": 1,
        "setup_cmd": "./setup.sh",
        "hooks": {"guard": "verif", "enable": "go build -tags verif (harness module /verif/go with replace => /repo)",
                  "baseline_off_cmd": BASE, "source_commits": HOOK_COMMITS, "add_only": True},
        "engines": [{"name": "lean4-model+go-correspondence", "path": "/verif/check",
                     "serves_properties": [c["property_id"] for c in checks],
                     "kind_free_text": "Lean 4 theorems about hand-written executable models (lean/), tied to /repo on every run by a Go differential harness (go/) that drives the real code and the compiled model driver with the same op lines, plus an independent property oracle; regenerated fact tables (vextract)"}],
        "checks": checks,
        "not_applicable": na,
        "notes": "Single entry point ./check <ID> quick|thorough|--replay <file>. Known findings: known_findings.json. See DESIGN.md.",
    }
    json.dump(m, open(os.path.join(V, "MANIFEST.json"), "w"), indent=1)

HOOK_COMMITS = ['c33d8ac', '5b640ab', '2c76442', '7c2cb95']  # /repo commits that add the verif-tagged hook files (add-only)
if __name__ == "__main__":
    main()
