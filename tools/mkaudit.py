#!/usr/bin/env python3
"""tools/mkaudit.py <ID>...: regenerate lean/Martian/Audit/<ID>.lean with one `#print axioms` per theorem of Props/<ID>.lean."""
import re, sys, os
V = os.path.dirname(os.path.dirname(os.path.abspath(__file__)))
for pid in sys.argv[1:]:
    import glob
    src = open(f"{V}/lean/Martian/Props/{pid}.lean").read()
    for sub in sorted(glob.glob(f"{V}/lean/Martian/Props/{pid}/*.lean")):
        src += "\n" + open(sub).read()
    src = re.sub(r"/-.*?-/", "", src, flags=re.S)
    src = re.sub(r"--.*", "", src)
    names = re.findall(r"^\s*theorem\s+([A-Za-z0-9_'.]+)", src, flags=re.M)
    open(f"{V}/lean/Martian/Audit/{pid}.lean", "w").write(
        f"import Martian.Props.{pid}\nopen Martian.Props.{pid}\n" + "".join(f"#print axioms {n}\n" for n in names))
    print(pid, len(names), "theorems")
