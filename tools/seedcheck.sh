#!/bin/bash
# tools/seedcheck.sh <ID> <seed-dir> [tier]
# Confirms a seeded defect (patch.diff + demonstration + meta.json) in a scratch worktree of /repo and
# runs ./check <ID> against it. Nothing is ever applied to /repo itself.
#   1. patch applies to /repo HEAD, `go build ./...` ok
#   2. existing tests of the touched packages (and the root/h2 packages when proxy/h2 code is touched) pass
#   3. the demonstration FAILS with the patch and PASSES without it
#   4. VERIF_REPO=<worktree> ./check <ID> <tier>  -> VIOLATION expected
set -u
V="$(cd "$(dirname "$0")/.." && pwd)"
ID=$1; D=$(cd "$2" && pwd); TIER=${3:-quick}
export GOFLAGS=-mod=mod GOPROXY=off GOSUMDB=off GOTOOLCHAIN=local
WT=/var/tmp/seedcheck-$ID-$$
git -C /repo worktree add --detach "$WT" HEAD >/dev/null 2>&1 || { echo "cannot create worktree"; exit 2; }
OUTTAG=$ID-$(python3 -c "import hashlib,sys;print(hashlib.sha1(sys.argv[1].encode()).hexdigest()[:10])" "$WT")
trap 'git -C /repo worktree remove --force "$WT" >/dev/null 2>&1; rm -rf "$WT" "$V/out/$OUTTAG"' EXIT
cd "$WT"
res() { echo "$1=$2"; }
demo_cmd=$(python3 -c "import json;print(json.load(open('$D/meta.json')).get('demo_cmd',''))")
# copy the demonstration files (everything except patch.diff/meta.json) to where demo_cmd expects them:
# test files carry their package directory in meta 'demo_dir' or are named zz_seed_*; we look the target up in demo_cmd.
place_demo() {
  for f in "$D"/*; do
    b=$(basename "$f")
    case "$b" in patch.diff|meta.json|verif_result.json|check.log) continue;; esac
    tgt=$(python3 - "$D/meta.json" "$b" <<'PY'
import json,sys,re
m=json.load(open(sys.argv[1])); b=sys.argv[2]
d=m.get('demo_dir') or ''
if not d:
    cmd=m.get('demo_cmd','')
    mm=re.search(r'go (?:test|run)[^\n]*?\s(\./[\w/.-]*)', cmd)
    d=mm.group(1) if mm else '.'
    d=d.rstrip('.').rstrip('/') or '.'
    if d.endswith('/..'): d=d[:-3]
print(d)
PY
)
    mkdir -p "$WT/$tgt"; cp -r "$f" "$WT/$tgt/"
  done
}
run_demo() { (cd "$WT" && timeout 600 bash -c "$demo_cmd") >"$1" 2>&1; echo $?; }
# optional base: patches not yet committed in /repo (e.g. a builder's own repo-patches/*.patch) that the
# seeded change is to be judged on top of. SEED_PRE="a.patch b.patch" (absolute paths), applied in order.
for pp in ${SEED_PRE:-}; do
  git apply --index "$pp" 2>/tmp/seedcheck-$$-pre.log || { res pre_patch_applies "no:$pp"; cat /tmp/seedcheck-$$-pre.log; exit 1; }
done
# --- without the change
place_demo
rc0=$(run_demo /tmp/seedcheck-$$-without.log)
res demo_without_change_exit "$rc0"
# --- with the change
if ! git apply --index "$D/patch.diff" 2>/tmp/seedcheck-$$-apply.log; then res patch_applies no; cat /tmp/seedcheck-$$-apply.log; exit 1; fi
res patch_applies yes
if go build ./... >/tmp/seedcheck-$$-build.log 2>&1; then res builds yes; else res builds no; tail -5 /tmp/seedcheck-$$-build.log; exit 1; fi
rc1=$(run_demo /tmp/seedcheck-$$-with.log)
res demo_with_change_exit "$rc1"
# existing tests: remove the demo files first
git status --porcelain | awk '$1=="??"{print $2}' | xargs -r rm -rf
pk=$(git diff --cached --name-only | xargs -n1 dirname | sort -u | sed 's#^#./#' | sed 's#^\./\.$#.#' | tr '\n' ' ')
extra=""
case "$pk" in *" . "*|". "*|*h2*) extra=". ./h2/...";; esac
if timeout 1500 go test -vet=off -count=1 $pk $extra >/tmp/seedcheck-$$-tests.log 2>&1; then res existing_tests pass; else res existing_tests FAIL; grep -E "^(--- FAIL|FAIL|ok)" /tmp/seedcheck-$$-tests.log | head; fi
# --- the check
(cd "$V" && VERIF_REPO="$WT" timeout 3000 ./check "$ID" "$TIER") >"$D/check.log" 2>&1
crc=$?
res check_exit "$crc"
grep -a -E "^VIOLATION|^KNOWN-FINDING|^check " "$D/check.log" | cut -c1-300 | head -8
python3 - "$D" "$rc0" "$rc1" "$crc" <<'PY'
import json,sys,re
d,rc0,rc1,crc=sys.argv[1],int(sys.argv[2]),int(sys.argv[3]),int(sys.argv[4])
log=open(d+'/check.log').read()
v=[l for l in log.splitlines() if l.startswith('VIOLATION')]
json.dump({"demo_without_change_exit":rc0,"demo_with_change_exit":rc1,"check_exit":crc,
 "violation_lines":v[:5],"concrete_replay":any('no-failing-input-found' not in l for l in v),
 "detail":[l.strip() for l in log.splitlines() if l.startswith('  ')][:4]},open(d+'/verif_result.json','w'),indent=1)
PY
rm -f /tmp/seedcheck-$$-*
